#!/usr/bin/env python3
"""Generates harness/src/gen_types.rs: the concrete type universes for C12
(codec), C13 (hash) and C14 (type ids), plus a >127-variant enum.
Deterministic (fixed seed); re-run only when the universe definition changes."""
import random, itertools
rnd = random.Random(20260925)

LEAVES = ["u8","u16","u32","u64","u128","usize","i8","i16","i32","i64","i128","isize",
          "bool","char","f32","f64","String","()"]
KEYS = ["u8","i32","u64","String","char","bool","(u8, String)","Vec<u8>","Option<i32>"]
DERIVED = ["Named","TupleS","UnitS","GenS<u16>","GenS<String>","SkipS","EnumA","GenE<i64>","GenE<Vec<u8>>","Big",
           "SkipTupFirst","SkipTupMid","SkipTupTwo","SkipGenTup<String>","SkipGenTup<Option<u64>>","SkipNamedEnds","SkipEnum"]
INTERNED = ["Interned<u64>","Interned<String>","Interned<Vec<u8>>","Interned<str>","Interned<[u8]>",
            "Interned<Vec<Interned<String>>>","Interned<Interned<u64>>"]
# constructor: (template, enc, hash)
C1 = [("Option<{}>",1,1),("Vec<{}>",1,1),("VecDeque<{}>",1,1),("LinkedList<{}>",1,1),
      ("[{}; 0]",1,1),("[{}; 1]",1,1),("[{}; 3]",1,1),("({},)",1,1),
      ("Box<{}>",1,1),("Rc<{}>",1,1),("Arc<{}>",1,1),("Box<[{}]>",1,1),("Arc<[{}]>",1,1),("Rc<[{}]>",1,1),
      ("Range<{}>",1,1),("RangeInclusive<{}>",1,1),("RangeFrom<{}>",1,1),("RangeTo<{}>",1,1),("RangeToInclusive<{}>",1,1),
      ("Bound<{}>",1,0),("Wrapping<{}>",1,0),("Reverse<{}>",1,0),("RefCell<{}>",1,0),("PhantomData<{}>",1,1)]
C2 = [("Result<{}, {}>",1,1),("({}, {})",1,1)]
CK = [("HashMap<{K}, {}>",1,1),("BTreeMap<{K}, {}>",1,1),("DashMap<{K}, {}>",1,1)]
CS = [("HashSet<{K}>",1,1),("BTreeSet<{K}>",1,1),("DashSet<{K}>",1,1)]
SPECIAL = [("Duration",1,1),("PathBuf",1,1),("Box<str>",1,1),("Arc<str>",1,1),("Rc<str>",1,1),
           ("Cow<'static, str>",1,0),("Cow<'static, [u8]>",1,0),("Cow<'static, u32>",1,1),("Cow<'static, String>",1,1),
           ("RangeFull",1,1),("Cell<u32>",1,0),("Cell<i64>",1,0),
           ("(u8, i16, String, bool)",1,1),("(u8, u16, u32, u64, i8, i16, i32, i64, bool, char, String, ())",1,1),
           ("(String, String)",1,1),("(Vec<u8>, Vec<u8>)",1,1)]
for nz in ["NonZeroU8","NonZeroU16","NonZeroU32","NonZeroU64","NonZeroU128","NonZeroUsize","NonZeroI8","NonZeroI16","NonZeroI32","NonZeroI64","NonZeroI128","NonZeroIsize"]:
    SPECIAL.append((nz,1,1))
for at in ["AtomicBool","AtomicI8","AtomicI16","AtomicI32","AtomicI64","AtomicIsize","AtomicU8","AtomicU16","AtomicU32","AtomicU64","AtomicUsize"]:
    SPECIAL.append((at,1,1))

def build():
    # (type, enc, hash)
    L0 = [(t,1,1) for t in LEAVES] + [(t,1,1) for t in DERIVED] + [(t,1,1) for t in INTERNED] + SPECIAL
    def apply(level, n1, n2, nk):
        out = []
        for (tpl,e,h) in C1:
            for (t,te,th) in rnd.sample(level, min(n1,len(level))):
                if tpl.startswith("PhantomData") : te2,th2 = 1,1
                out.append((tpl.format(t), e&te, h&th))
        for (tpl,e,h) in C2:
            for _ in range(n2):
                a=rnd.choice(level); b=rnd.choice(level)
                out.append((tpl.format(a[0],b[0]), e&a[1]&b[1], h&a[2]&b[2]))
        for (tpl,e,h) in CK:
            for _ in range(nk):
                k=rnd.choice(KEYS); v=rnd.choice(level)
                out.append((tpl.replace("{K}",k).format(v[0]), e&v[1], h&v[2]))
        return out
    L1 = apply(L0, 5, 10, 5)
    for (tpl,e,h) in CS:
        for k in KEYS: L1.append((tpl.replace("{K}",k),e,h))
    L2 = apply(L1, 3, 8, 4)
    L3 = apply(L2, 2, 6, 3)
    seen=set(); res=[]
    for x in L0+L1+L2+L3:
        if x[0] in seen: continue
        # Cow<'static, T> needs Clone; RefCell/Cell of non-clone fine. Rc/Arc<[T]> need From<Vec>; ok.
        seen.add(x[0]); res.append(x)
    return res

U = build()
enc = [t for (t,e,h) in U if e]
hsh = [t for (t,e,h) in U if h and 'Interned<Interned' not in t]

# ---- C14 universe: Identifiable type expressions ---------------------------
ID_LEAVES = ["u8","u16","u32","u64","u128","usize","i8","i16","i32","i64","i128","isize","bool","char","f32","f64",
             "str","String","()","Duration","PathBuf","Path","RangeFull","ma::P0","mb::P0","ma::P1","mb::P1"]
SIZED_LEAVES = [t for t in ID_LEAVES if t not in ("str","Path")]
ID_C1 = ["Option<{}>","Vec<{}>","VecDeque<{}>","LinkedList<{}>","BTreeSet<{}>","BinaryHeap<{}>","Box<{}>","Rc<{}>","Arc<{}>",
         "std::sync::Weak<{}>","std::rc::Weak<{}>","&'static {}","&'static mut {}","*const {}","*mut {}","Cell<{}>","RefCell<{}>",
         "[{}; 0]","[{}; 1]","[{}; 2]","[{}; 3]","[{}]","({},)","Range<{}>","RangeInclusive<{}>","RangeFrom<{}>","RangeTo<{}>",
         "Bound<{}>","Wrapping<{}>","PhantomData<{}>","std::sync::Mutex<{}>","ma::G1<{}>","mb::G1<{}>","HashSet<{}, RandomState>"]
UNSIZED_OK = {"Box<{}>","Rc<{}>","Arc<{}>","std::sync::Weak<{}>","std::rc::Weak<{}>","&'static {}","&'static mut {}","*const {}","*mut {}","PhantomData<{}>"}
ID_C2 = ["Result<{}, {}>","({}, {})","BTreeMap<{}, {}>","HashMap<{}, {}, RandomState>","ma::G2<{}, {}>","mb::G2<{}, {}>"]
ID_C3 = ["({}, {}, {})","ma::G3<{}, {}, {}>"]
def is_unsized(t): return t in ("str","Path") or (t.startswith("[") and t.endswith("]") and ";" not in t.split("]")[-2] if False else (t.startswith("[") and not "; " in t[t.rfind("]")-3:t.rfind("]")+1] and t.endswith("]") and t.count(";")==t[1:-1].count(";") and not t[1:-1].endswith(tuple("0123456789"))))
def unsized(t):
    if t in ("str","Path"): return True
    if t.startswith("[") and t.endswith("]"):
        inner=t[1:-1]
        # slice if no top-level "; N" suffix
        depth=0
        for i,ch in enumerate(inner):
            if ch in "<([": depth+=1
            elif ch in ">)]": depth-=1
            elif ch==";" and depth==0: return False
        return True
    return False
ids=set(ID_LEAVES)
def add(t): ids.add(t)
lvl0=list(ID_LEAVES)
lvl1=[]
for c in ID_C1:
    for t in lvl0:
        if unsized(t) and c not in UNSIZED_OK: continue
        lvl1.append(c.format(t))
s0=[t for t in lvl0 if not unsized(t)]
for c in ID_C2:
    for a in rnd.sample(s0,8):
        for b in rnd.sample(s0,8):
            lvl1.append(c.format(a,b)); lvl1.append(c.format(b,a))
for c in ID_C3:
    for _ in range(60):
        a,b,cc=rnd.sample(s0,3)
        for p in itertools.permutations((a,b,cc)): lvl1.append(c.format(*p))
for t in lvl1: add(t)
lvl1=sorted(set(lvl1)); s1=[t for t in lvl1 if not unsized(t)]
lvl2=[]
for c in ID_C1:
    for t in rnd.sample(lvl1,40):
        if unsized(t) and c not in UNSIZED_OK: continue
        lvl2.append(c.format(t))
for c in ID_C2:
    for _ in range(120):
        a=rnd.choice(s1); b=rnd.choice(s0)
        lvl2.append(c.format(a,b)); lvl2.append(c.format(b,a))
# re-nesting families
for _ in range(150):
    a,b,cc=rnd.sample(s0,3)
    lvl2 += ["(%s, (%s, %s))"%(a,b,cc), "((%s, %s), %s)"%(a,b,cc), "(%s, %s, %s)"%(a,b,cc),
             "Vec<Option<%s>>"%a, "Option<Vec<%s>>"%a, "[[%s; 1]; 2]"%a, "[[%s; 2]; 1]"%a,
             "Result<Result<%s, %s>, %s>"%(a,b,cc), "Result<%s, Result<%s, %s>>"%(a,b,cc),
             "ma::G2<ma::G1<%s>, %s>"%(a,b), "ma::G1<ma::G2<%s, %s>>"%(a,b), "ma::G2<%s, ma::G1<%s>>"%(a,b)]
for t in lvl2: add(t)
lvl2=sorted(set(lvl2)); s2=[t for t in lvl2 if not unsized(t)]
lvl3=[]
for c in ID_C1:
    for t in rnd.sample(lvl2,25):
        if unsized(t) and c not in UNSIZED_OK: continue
        lvl3.append(c.format(t))
for c in ID_C2:
    for _ in range(60):
        a=rnd.choice(s2); b=rnd.choice(s1)
        lvl3.append(c.format(a,b)); lvl3.append(c.format(b,a))
for t in lvl3: add(t)
# tuples 1..16 of mixed
for n in range(1,17):
    for _ in range(6):
        els=[rnd.choice(s0) for _ in range(n)]
        add("("+", ".join(els)+(",)" if n==1 else ")"))
ids=sorted(ids)

out=[]
out.append("// @generated by tools/gen_types.py -- do not edit\n#![allow(clippy::all, unused_imports, non_camel_case_types)]\n")
out.append("use crate::universe::prelude::*;\n")
# big enum
out.append("#[derive(Debug, Clone, PartialEq, Eq, Encode, Decode, StableHash, Identifiable)]\npub enum Big {\n")
for i in range(140):
    if i%3==0: out.append(f"    V{i},\n")
    elif i%3==1: out.append(f"    V{i}(u8),\n")
    else: out.append(f"    V{i} {{ a: i16 }},\n")
out.append("}\n")
out.append("impl Gen for Big {\n    fn generate(r: &mut Rng, d: u32) -> Self {\n        match r.below(140) {\n")
for i in range(140):
    if i%3==0: out.append(f"            {i} => Big::V{i},\n")
    elif i%3==1: out.append(f"            {i} => Big::V{i}(u8::generate(r, d)),\n")
    else: out.append(f"            {i} => Big::V{i} {{ a: i16::generate(r, d) }},\n")
out.append("            _ => unreachable!(),\n        }\n    }\n    fn same(&self, o: &Self) -> bool { self == o }\n    fn rebuild(&self, _r: &mut Rng) -> Self { self.clone() }\n}\n")
out.append("pub const BIG_VARIANTS: usize = 140;\n")
out.append("pub fn visit_codec_types<V: CodecVisitor>(v: &mut V) {\n")
for t in enc: out.append(f"    v.visit::<{t}>(\"{t}\");\n")
out.append("}\n")
out.append("pub fn visit_hash_types<V: HashVisitor>(v: &mut V) {\n")
for t in hsh: out.append(f"    v.visit::<{t}>(\"{t}\");\n")
out.append("}\n")
both = [t for (t,e,h) in U if h and e and 'Interned<Interned' not in t]
out.append("pub fn visit_both_types<V: BothVisitor>(v: &mut V) {\n")
for t in both: out.append(f"    v.visit::<{t}>(\"{t}\");\n")
out.append("}\n")
out.append("pub fn visit_id_types<V: IdVisitor>(v: &mut V) {\n")
for t in ids: out.append(f"    v.visit::<{t}>(\"{t}\");\n")
out.append("}\n")
open("/verif/harness/src/gen_types.rs","w").write("".join(out))
print(len(enc),"codec types;",len(hsh),"hash types;",len(ids),"id types")
