#!/bin/sh
# usage: mutslot.sh <slot> <seed-dir|none>  -- prepare /var/tmp/qv-mut-<slot> with the patch applied and the
# current /verif/harness sources, build without RocksDB/Fjall (fast); then run
#   QV_ROOT=/var/tmp/qv-mut-<slot>/root /var/tmp/qv-mut-<slot>/harness/target/release/qv run Cxx ...
set -e
slot=$1; d=$2; base=/var/tmp/qv-mut-$slot
mkdir -p $base/root/evidence $base/root/replays
rsync -a --delete --exclude target --exclude .git /repo/ $base/repo/
rsync -a --delete --exclude 'target*' --exclude build.log /verif/harness/ $base/harness/
cp /verif/known_findings.json $base/root/
sed -i "s#\"/repo/#\"$base/repo/#" $base/harness/Cargo.toml
if [ "$d" != none ]; then (cd $base/repo && patch -p1 --no-backup-if-mismatch < /verif/seeded/$d/patch.diff); fi
cd $base/harness && CARGO_NET_OFFLINE=true cargo build --release --offline -q ${3:---no-default-features} 2>&1 | grep -E "^error" -A8 | head -30
echo "slot $slot ready ($d)"
