#!/usr/bin/env python3
"""Collects the RESULT lines of tools/seedtest.py runs (oldest file first) into seeded/RESULTS.txt,
keeping for every (seeded change, check, tier, seed) the latest run only."""
import sys, re, collections
latest = collections.OrderedDict()
for f in sys.argv[1:]:
    try:
        lines = open(f).read().splitlines()
    except OSError:
        continue
    for l in lines:
        m = re.match(r'RESULT (\S+) check=(\S+) tier=(\S+) seed=(\S+) ', l)
        if m:
            latest[m.groups()] = re.sub(r' log=\S+', '', l)
        elif l.startswith('RESULT ') and 'PATCH-FAILED' not in l and 'BUILD-FAILED' not in l:
            pass
out = sorted(latest.values())
open('/verif/seeded/RESULTS.txt', 'w').write("\n".join(out) + "\n")
print(len(out), "result lines")
