#!/usr/bin/env python3
"""Mutation (seeded-change) validation driver.

usage: seedtest.py <slot> [--tier quick] [--seeds 1,2] [--checks C01,C03] <seed-dir>...

For every seeded change it copies /repo's working tree (no target/, no .git) and
/verif/harness into /var/tmp/qv-mut-<slot>/, rewrites the harness' path
dependencies to that copy, applies seeded/<dir>/patch.diff, builds, runs the
checks and prints one summary line per (seed-dir, check, seed). Output of each
run is kept in /var/tmp/qv-mut-<slot>/logs/. /repo itself is never touched.
(The reference procedure - git -C /repo apply; ./check ...; git -C /repo
checkout -- . - is equivalent; this driver exists so that several changes can
be tried in parallel and while /repo is in use.)
"""
import os, re, shutil, subprocess, sys, json, time

def sh(cmd, **kw):
    return subprocess.run(cmd, shell=True, text=True, capture_output=True, **kw)

def main():
    a = sys.argv[1:]
    slot = a.pop(0)
    tier, seeds, checks, dirs = "quick", ["1"], None, []
    while a:
        x = a.pop(0)
        if x == "--tier": tier = a.pop(0)
        elif x == "--seeds": seeds = a.pop(0).split(",")
        elif x == "--checks": checks = a.pop(0).split(",")
        else: dirs.append(x)
    base = f"/var/tmp/qv-mut-{slot}"
    os.makedirs(f"{base}/logs", exist_ok=True)
    os.makedirs(f"{base}/root/evidence", exist_ok=True)
    os.makedirs(f"{base}/root/replays", exist_ok=True)
    sh(f"rsync -a --delete --exclude target --exclude .git /repo/ {base}/repo/")
    sh(f"rsync -a --delete --exclude 'target*' --exclude build.log /verif/harness/ {base}/harness/")
    shutil.copy("/verif/known_findings.json", f"{base}/root/known_findings.json")
    ct = open(f"{base}/harness/Cargo.toml").read().replace('"/repo/', f'"{base}/repo/')
    open(f"{base}/harness/Cargo.toml", "w").write(ct)
    env = dict(os.environ, CARGO_NET_OFFLINE="true", QV_ROOT=f"{base}/root")
    for d in dirs:
        name = os.path.basename(d.rstrip("/"))
        patch = os.path.abspath(f"{d}/patch.diff")
        r = sh(f"patch -p1 --no-backup-if-mismatch < {patch}", cwd=f"{base}/repo")
        if r.returncode != 0:
            print(f"RESULT {name} PATCH-FAILED {r.stdout[-300:]}", flush=True)
            sh(f"rsync -a --delete --exclude target --exclude .git /repo/ {base}/repo/")
            continue
        t0 = time.time()
        b = sh("cargo build --release --offline -q 2>&1 | tail -30", cwd=f"{base}/harness", env=env)
        if not os.path.exists(f"{base}/harness/target/release/qv") or "error" in b.stdout:
            print(f"RESULT {name} BUILD-FAILED {b.stdout[-1500:]}", flush=True)
        else:
            bt = time.time() - t0
            cs = checks or [name.split("-")[0]]
            for c in cs:
                for s in seeds:
                    t1 = time.time()
                    r = sh(f"target/release/qv run {c} --tier {tier} --seed {s}", cwd=f"{base}/harness", env=env)
                    out = r.stdout + r.stderr
                    log = f"{base}/logs/{name}.{c}.{tier}.{s}.log"
                    open(log, "w").write(out)
                    viol = [l for l in out.splitlines() if l.startswith("VIOLATION")]
                    kf = [l for l in out.splitlines() if l.startswith("KNOWN-FINDING")]
                    sigs = sorted(set(re.findall(r'signature[=:] ?"?([^"\n]{0,110})', out)))[:4]
                    verdict = "CAUGHT" if (r.returncode == 1 and viol) else ("silent" if r.returncode == 0 else f"exit{r.returncode}")
                    print(f"RESULT {name} check={c} tier={tier} seed={s} {verdict} viol={len(viol)} known={len(kf)} build={bt:.0f}s run={time.time()-t1:.0f}s log={log}", flush=True)
                    if viol:
                        for l in [l for l in out.splitlines() if l.strip().startswith(("signature:", "what:"))][:4]:
                            print("   ", l.strip()[:300], flush=True)
        sh(f"patch -R -p1 --no-backup-if-mismatch < {patch}", cwd=f"{base}/repo")
        d2 = sh(f"diff -rq --exclude target --exclude .git /repo {base}/repo | head -3")
        if d2.stdout.strip():
            sh(f"rsync -a --delete --exclude target --exclude .git /repo/ {base}/repo/")
    print("DONE", flush=True)

main()
