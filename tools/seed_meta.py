#!/usr/bin/env python3
"""Writes seeded/<name>/meta.json and prints the markdown table of DESIGN 9.7 from
seeded/RESULTS.txt (the RESULT lines printed by tools/seedtest.py)."""
import json, os, re, collections, sys
root='/verif/seeded'
desc={}
for l in open(f'{root}/SEEDS.tsv'):
    if l.strip() and not l.startswith('#'):
        name,prop,origin,needs,what=l.rstrip('\n').split('\t')
        desc[name]=dict(property=prop,origin=origin,needs=needs,what=what)
res=collections.defaultdict(list)
for l in open(f'{root}/RESULTS.txt'):
    m=re.match(r'RESULT (\S+) check=(\S+) tier=(\S+) seed=(\S+) (\S+) viol=(\d+) known=(\d+)',l)
    if m:
        n,c,t,s,v,nv,nk=m.groups(); res[n].append(dict(check=c,tier=t,seed=int(s),verdict=v,violations=int(nv),known_findings=int(nk)))
rows=[]
for name in sorted(desc):
    d=desc[name]; r=res.get(name,[])
    own=[x for x in r if x['check']==d['property']]
    caught=sum(1 for x in own if x['verdict']=='CAUGHT')
    others=sorted({x['check'] for x in r if x['check']!=d['property'] and x['verdict']=='CAUGHT'})
    meta=dict(name=name, breaks_property=d['property'], origin=d['origin'], change=d['what'], needs_to_manifest=d['needs'],
              procedure="git -C /repo apply /verif/seeded/%s/patch.diff; ./check %s --tier quick (VERIF_SEED as listed); git -C /repo checkout -- .  (run through tools/seedtest.py on a scratch copy of /repo; never committed to /repo)"%(name,d['property']),
              runs=r, caught_by_own_check="%d/%d"%(caught,len(own)), also_caught_by=others)
    os.makedirs(f'{root}/{name}',exist_ok=True)
    json.dump(meta,open(f'{root}/{name}/meta.json','w'),indent=1)
    rows.append(f"| {name} | {d['property']} | {d['origin']} | {d['what']} | {caught}/{len(own)} | {', '.join(others) or '-'} |")
print("| seeded change | property | origin | what it changes | own check, quick tier (caught / runs) | also caught by |")
print("|---|---|---|---|---|---|")
print("\n".join(rows))
