//! C06 - dependency cycles are detected: they terminate with cycle defaults.

use std::{
    collections::{BTreeMap, HashMap, HashSet},
    sync::{Arc, atomic::Ordering},
    time::Duration,
};

use qbice::engine::YieldFrequency;

use crate::{
    eng::{Backend, MemBackend, RecBackend, open_engine, query_node, shutdown},
    hooks::{self, YieldPolicy},
    model::{Combine, ExecCtx, In, Kind, NodeId, NodeSpec, Op, Pred, Program, SCC_F, SCC_N, SCC_P, nid},
    reckv::Grouping,
    sup::{self, CheckMeta, PartSpec, Report, Tier, Violation, WorkerCtx},
    util::{Json, Rng, h64, proc_cpu_ticks},
};

pub fn meta(tier: Tier) -> CheckMeta {
    CheckMeta {
        id: "C06",
        level: "exploration",
        rule: "directed graphs on 2-6 executable nodes (normal / firewall / projection) with arbitrary edges incl. \
               self-loops and several SCCs; every node first reads its own control input, cycle-forming edges are \
               ReadIf edges switched by that input (never by a value inside the cycle). Reference: static \
               semantics (SCC members of the enabled-edge graph = their kind's default, the rest evaluated over \
               those defaults) and dynamic semantics (depth-first evaluation with stack marking, for the given \
               and the reversed root order); a case is judged only where all agree, the rest is skipped and \
               counted. Histories toggle control inputs 4-12 times; roots are queried sequentially, with \
               join_all, or from several tasks at once; every request must complete (quiescence-based deadlock \
               verdict). quick: random graphs; thorough additionally enumerates all edge sets on <= 3 nodes \
               (exhaustive_parts). distinct = hash(graph, toggle history, roots, mode); non-trivial = some epoch \
               had a cycle and some epoch had none.",
        assumptions: vec![
            "program x input combinations on which static and dynamic semantics (or the two root orders) disagree are skipped: the property's wording does not settle them".into(),
            "scc_value is per executor type: one sentinel per node kind".into(),
        ],
        parts: vec![PartSpec { name: "native", nshards: 16, budget_s: tier.pick(300, 2400), env: vec![], program: None, prepare: None, sanitizer: None }],
        must_be_nonzero: vec![
            ("epochs_with_cycle", "no cyclic epoch judged"),
            ("epochs_without_cycle", "no acyclic epoch judged"),
            ("concurrent_epochs", "no concurrent entry into an SCC"),
        ],
    }
}

pub const F1_SIG: &str = "C06/stale-after-earlier-cycle-membership [a wrong value at a node whose static dependency closure \
contains a query that was a member of a dependency cycle in an earlier epoch of the same engine]";
pub const F2_SIG: &str = "C06/cycle-through-firewall [F0=[In0, if In0>0 then N0], N0=[In1, F0]: after the edit In0: 0->1 the \
cycle N0<->F0 is not detected / the request does not complete]";

fn default_of(n: NodeId) -> i64 {
    match n.kind {
        Kind::N => SCC_N,
        Kind::F => SCC_F,
        Kind::P => SCC_P,
        _ => 0,
    }
}

/// node i reads control input In(i) first; `edges[i]` = (target, conditional?, pred)
pub fn cyc_program(r: &mut Rng, n: usize, density: u64, mixed_kinds: bool) -> (Program, Vec<NodeId>) {
    // kinds: mostly N; F sometimes; P only if it can read an F/P
    let mut ids: Vec<NodeId> = Vec::new();
    let (mut nn, mut nf, mut np) = (0, 0, 0);
    for _ in 0..n {
        let k = if mixed_kinds { r.below(10) } else { 0 };
        let id = if k < 6 {
            nn += 1;
            nid(Kind::N, nn - 1)
        } else if k < 9 || nf == 0 {
            nf += 1;
            nid(Kind::F, nf - 1)
        } else {
            np += 1;
            nid(Kind::P, np - 1)
        };
        ids.push(id);
    }
    let fp: Vec<NodeId> = ids.iter().copied().filter(|x| x.kind != Kind::N).collect();
    let mut prog = Program::default();
    for (i, id) in ids.iter().enumerate() {
        // projections may only read firewalls / projections: no control input,
        // unconditional edges only
        let mut ops = if id.kind == Kind::P { vec![] } else { vec![Op::Read(nid(Kind::In, i as u32))] };
        let pool: &[NodeId] = if id.kind == Kind::P { &fp } else { &ids };
        for t in pool {
            if r.below(100) < density {
                if id.kind == Kind::P || r.chance(1, 2) {
                    ops.push(Op::Read(*t));
                } else {
                    ops.push(Op::ReadIf { on: 0, pred: if r.chance(1, 2) { Pred::Gt(0) } else { Pred::Zero }, then: *t, els: None });
                }
            }
        }
        if id.kind == Kind::P && ops.is_empty() && !fp.is_empty() {
            // a projection must read at least one firewall / projection
            ops.push(Op::Read(fp[0]));
        }
        prog.nodes.insert(*id, NodeSpec { ops, combine: Combine::SumPlus(100 * (i as i64 + 1)) });
    }
    (prog, ids)
}

/// Does a firewall / projection lie on a cycle of the full static graph (all
/// conditional edges enabled)? Such programs are the known finding C06-F2 and
/// are kept out of the exploration (a fixed reproducer stands for them).
pub fn firewall_on_potential_cycle(prog: &Program) -> bool {
    let nodes: Vec<NodeId> = prog.nodes.keys().copied().collect();
    let adj: HashMap<NodeId, Vec<NodeId>> = nodes
        .iter()
        .map(|n| (*n, prog.static_deps(*n).into_iter().filter(|d| d.kind != Kind::In).collect()))
        .collect();
    nodes.iter().filter(|n| n.kind != Kind::N).any(|n| {
        let mut seen = HashSet::new();
        let mut st = adj[n].clone();
        while let Some(x) = st.pop() {
            if x == *n {
                return true;
            }
            if seen.insert(x) {
                st.extend(adj[&x].iter().copied());
            }
        }
        false
    })
}

fn enabled_edges(prog: &Program, inputs: &HashMap<u32, i64>, n: NodeId) -> Vec<NodeId> {
    let spec = prog.spec(n);
    let mut out = Vec::new();
    let mut first = 0;
    for (i, op) in spec.ops.iter().enumerate() {
        match op {
            Op::Read(d) => {
                if i == 0 && d.kind == Kind::In {
                    first = inputs.get(&d.idx).copied().unwrap_or(0);
                } else {
                    out.push(*d);
                }
            }
            Op::ReadIf { pred, then, .. } => {
                if pred.test(first) {
                    out.push(*then);
                }
            }
            _ => {}
        }
    }
    out
}

/// static semantics
pub fn static_values(prog: &Program, inputs: &HashMap<u32, i64>) -> (HashMap<NodeId, i64>, HashSet<NodeId>) {
    let nodes: Vec<NodeId> = prog.nodes.keys().copied().collect();
    let adj: HashMap<NodeId, Vec<NodeId>> = nodes.iter().map(|n| (*n, enabled_edges(prog, inputs, *n))).collect();
    // reachability-based SCC (tiny graphs)
    let reach = |from: NodeId| -> HashSet<NodeId> {
        let mut seen = HashSet::new();
        let mut st = adj[&from].clone();
        while let Some(x) = st.pop() {
            if seen.insert(x) {
                st.extend(adj[&x].iter().copied());
            }
        }
        seen
    };
    let cyc: HashSet<NodeId> = nodes.iter().copied().filter(|n| reach(*n).contains(n)).collect();
    let mut memo: HashMap<NodeId, i64> = HashMap::new();
    fn ev(n: NodeId, prog: &Program, inputs: &HashMap<u32, i64>, adj: &HashMap<NodeId, Vec<NodeId>>, cyc: &HashSet<NodeId>, memo: &mut HashMap<NodeId, i64>) -> i64 {
        if let Some(v) = memo.get(&n) {
            return *v;
        }
        let v = if cyc.contains(&n) {
            default_of(n)
        } else {
            let spec = prog.spec(n);
            let mut vals = Vec::new();
            for (i, op) in spec.ops.iter().enumerate() {
                match op {
                    Op::Read(d) if i == 0 && d.kind == Kind::In => vals.push(inputs.get(&d.idx).copied().unwrap_or(0)),
                    Op::Read(d) => vals.push(ev(*d, prog, inputs, adj, cyc, memo)),
                    Op::ReadIf { pred, then, .. } => {
                        if pred.test(vals[0]) {
                            vals.push(ev(*then, prog, inputs, adj, cyc, memo));
                        }
                    }
                    _ => {}
                }
            }
            spec.combine.apply(&vals)
        };
        memo.insert(n, v);
        v
    }
    for n in &nodes {
        ev(*n, prog, inputs, &adj, &cyc, &mut memo);
    }
    (memo, cyc)
}

/// dynamic (depth-first, stack-marking) semantics from scratch, roots in order
pub fn dynamic_values(prog: &Program, inputs: &HashMap<u32, i64>, roots: &[NodeId]) -> HashMap<NodeId, i64> {
    struct St<'a> {
        prog: &'a Program,
        inputs: &'a HashMap<u32, i64>,
        memo: HashMap<NodeId, i64>,
        stack: Vec<NodeId>,
        marked: HashSet<NodeId>,
    }
    fn ev(s: &mut St, n: NodeId) -> i64 {
        if let Some(v) = s.memo.get(&n) {
            return *v;
        }
        if let Some(pos) = s.stack.iter().position(|x| *x == n) {
            for m in s.stack[pos..].to_vec() {
                s.marked.insert(m);
            }
            return 0; // the caller (top of stack) is marked and unwinds
        }
        s.stack.push(n);
        let spec = s.prog.spec(n).clone();
        let mut vals = Vec::new();
        for (i, op) in spec.ops.iter().enumerate() {
            let dep = match op {
                Op::Read(d) if i == 0 && d.kind == Kind::In => {
                    vals.push(s.inputs.get(&d.idx).copied().unwrap_or(0));
                    None
                }
                Op::Read(d) => Some(*d),
                Op::ReadIf { pred, then, .. } => {
                    if pred.test(vals[0]) { Some(*then) } else { None }
                }
                _ => None,
            };
            if let Some(d) = dep {
                let v = ev(s, d);
                if s.marked.contains(&n) {
                    break;
                }
                vals.push(v);
            }
        }
        s.stack.pop();
        let v = if s.marked.contains(&n) { default_of(n) } else { spec.combine.apply(&vals) };
        s.memo.insert(n, v);
        v
    }
    let mut s = St { prog, inputs, memo: HashMap::new(), stack: vec![], marked: HashSet::new() };
    for r in roots {
        ev(&mut s, *r);
    }
    s.memo
}

#[derive(Clone, Copy, Debug, PartialEq, Eq)]
enum Mode {
    Seq,
    Join,
    Par(usize),
}

enum Wait<T> {
    Ok(T),
    Deadlock,
    Busy,
}

async fn bounded<F: std::future::Future>(f: F, secs: u64) -> Wait<F::Output> {
    match tokio::time::timeout(Duration::from_secs(secs), f).await {
        Ok(v) => Wait::Ok(v),
        Err(_) => {
            let pid = std::process::id();
            let c0 = proc_cpu_ticks(pid).unwrap_or(0);
            tokio::time::sleep(Duration::from_secs(2)).await;
            let c1 = proc_cpu_ticks(pid).unwrap_or(0);
            if c1.saturating_sub(c0) <= 2 { Wait::Deadlock } else { Wait::Busy }
        }
    }
}

struct CaseOut {
    violations: Vec<(String, Json)>,
    judged_cyc: u64,
    judged_acyc: u64,
    skipped: u64,
    concurrent: u64,
    inconclusive: Option<String>,
}

/// history: per epoch the control inputs + roots + mode
type Epoch = (Vec<i64>, Vec<NodeId>, Mode);

async fn run_case<B: Backend>(b: &B, prog: Arc<Program>, ids: &[NodeId], history: &[Epoch], yields: u64, seed: u64, prerepair: bool, stop_after: Option<usize>) -> CaseOut {
    let mut out = CaseOut { violations: vec![], judged_cyc: 0, judged_acyc: 0, skipped: 0, concurrent: 0, inconclusive: None };
    let ctx = ExecCtx::new(prog.clone());
    let engine = open_engine(b, &ctx, YieldFrequency::Never).await.expect("open");
    let mark = sup::panic_mark();
    if yields > 0 {
        hooks::set_yield(YieldPolicy::Prob { num: yields, den: 8, prefixes: vec![] }, seed);
    }
    let mut inputs: HashMap<u32, i64> = HashMap::new();
    // nodes that were members of a cycle in an earlier epoch of this engine's life
    let mut ever_cyclic: HashSet<NodeId> = HashSet::new();
    'h: for (ei, (ctrl, roots, mode)) in history.iter().enumerate() {
        if stop_after.is_some_and(|s| ei > s) {
            break 'h;
        }
        ctx.epoch.store(ei as u64 + 1, Ordering::SeqCst);
        {
            let s = bounded(engine.input_session(), 20).await;
            let Wait::Ok(mut s) = s else {
                out.violations.push(("deadlock-opening-session".into(), Json::obj().set("epoch", ei)));
                break 'h;
            };
            for (i, v) in ctrl.iter().enumerate() {
                s.set_input(In(i as u32), *v).await;
                inputs.insert(i as u32, *v);
            }
            s.commit().await;
        }
        let (stat, cyc) = static_values(&prog, &inputs);
        let dyn1 = dynamic_values(&prog, &inputs, roots);
        let mut rev = roots.clone();
        rev.reverse();
        let dyn2 = dynamic_values(&prog, &inputs, &rev);
        let agree = roots.iter().all(|r| dyn1.get(r) == stat.get(r) && dyn2.get(r) == stat.get(r))
            // every node the dynamic runs touched must agree too (they get cached)
            && dyn1.iter().all(|(k, v)| stat.get(k) == Some(v))
            && dyn2.iter().all(|(k, v)| stat.get(k) == Some(v));
        if prerepair {
            // counterfactual mode (classifier of C01-F1)
            let r = bounded(
                async {
                    let t = engine.clone().tracked().await;
                    crate::eng::prerepair_tfc(&t, &crate::eng::topo_order(&prog, ids)).await;
                },
                20,
            )
            .await;
            if !matches!(r, Wait::Ok(())) {
                out.inconclusive = Some("prerepair did not finish".into());
                std::mem::forget(engine);
                hooks::set_yield(YieldPolicy::Off, 0);
                return out;
            }
        }
        // query
        let got: Wait<Vec<(NodeId, i64)>> = match mode {
            Mode::Seq => {
                bounded(
                    async {
                        let t = engine.clone().tracked().await;
                        let mut v = Vec::new();
                        for n in roots {
                            v.push((*n, query_node(&t, *n).await));
                        }
                        v
                    },
                    20,
                )
                .await
            }
            Mode::Join => {
                bounded(
                    async {
                        let t = engine.clone().tracked().await;
                        let vs = futures::future::join_all(roots.iter().map(|n| query_node(&t, *n))).await;
                        roots.iter().copied().zip(vs).collect()
                    },
                    20,
                )
                .await
            }
            Mode::Par(k) => {
                out.concurrent += 1;
                let mut hs = Vec::new();
                for c in 0..*k {
                    let mine: Vec<NodeId> = roots.iter().copied().skip(c).step_by(*k).collect();
                    let e = engine.clone();
                    hs.push(tokio::spawn(async move {
                        let t = e.tracked().await;
                        let mut v = Vec::new();
                        for n in mine {
                            v.push((n, query_node(&t, n).await));
                        }
                        v
                    }));
                }
                bounded(
                    async {
                        let mut v = Vec::new();
                        for h in hs {
                            match h.await {
                                Ok(x) => v.extend(x),
                                Err(_) => v.push((nid(Kind::In, 9999), -1)),
                            }
                        }
                        v
                    },
                    20,
                )
                .await
            }
        };
        let got = match got {
            Wait::Ok(g) => g,
            Wait::Deadlock => {
                out.violations.push(("request-never-completes".into(), Json::obj().set("epoch", ei).set("roots", format!("{roots:?}")).set("mode", format!("{mode:?}")).set("cyclic_nodes", format!("{cyc:?}"))));
                std::mem::forget(engine);
                hooks::set_yield(YieldPolicy::Off, 0);
                return out;
            }
            Wait::Busy => {
                out.inconclusive = Some(format!("epoch {ei}: still busy after 20 s"));
                std::mem::forget(engine);
                hooks::set_yield(YieldPolicy::Off, 0);
                return out;
            }
        };
        if std::env::var("QV_DEBUG").is_ok() {
            eprintln!("DEBUG epoch {ei} ctrl={ctrl:?} roots={roots:?} mode={mode:?} got={got:?} static={:?} cyc={cyc:?}\n      records={:?}", roots.iter().map(|r| stat[r]).collect::<Vec<_>>(), ctx.log.records.lock().iter().map(|x| (x.node, x.reads.clone(), x.result.clone())).collect::<Vec<_>>());
        }
        let ps = sup::panics_since(mark);
        let stray: Vec<&String> = ps.iter().filter(|p| !p.contains("<non-string payload>")).collect();
        if !stray.is_empty() {
            out.violations.push(("panic-in-cyclic-evaluation".into(), Json::obj().set("epoch", ei).set("panics", Json::Arr(stray.iter().take(3).map(|s| Json::Str((*s).clone())).collect())).set("cyclic_nodes", format!("{cyc:?}"))));
            break 'h;
        }
        if got.iter().any(|g| g.0.kind == Kind::In) {
            out.violations.push(("query-task-panicked".into(), Json::obj().set("epoch", ei)));
            break 'h;
        }
        if !agree || *mode != Mode::Seq && !cyc.is_empty() && !roots.iter().all(|r| dynamic_values(&prog, &inputs, &[*r]).iter().all(|(k, v)| stat.get(k) == Some(v))) {
            out.skipped += 1;
            // the engine's caches now hold values we do not judge; stop judging this case
            break 'h;
        }
        if cyc.is_empty() { out.judged_acyc += 1 } else { out.judged_cyc += 1 }
        for (n, v) in got {
            if stat[&n] != v {
                // known finding C06-F1: a query that unwound as a cycle member
                // recorded only the dependencies it had read so far; after a
                // later edit its (and its dependants') bookkeeping is stale
                let cl = crate::eng::closure(&prog, &[n]);
                let tainted = cl.iter().any(|d| ever_cyclic.contains(d));
                // ... but not this shape: a query that is on no cycle now and still
                // returns its own cycle default. That was the defect repaired by
                // 07a4857; the residue recorded as C06-F1 never shows it (0 of the
                // residue cases of the quick and thorough tiers), so it is reported.
                let kept_default = !cyc.contains(&n) && v == default_of(n);
                out.violations.push((
                    if kept_default { "former-cycle-member-keeps-its-default" } else if tainted { "stale-after-earlier-cycle-membership" } else if cyc.iter().any(|c| c.kind != Kind::N) { "cycle-through-firewall-or-projection" } else if cyc.contains(&n) { "cycle-member-not-default" } else if cyc.is_empty() { "acyclic-value-wrong" } else { "value-outside-cycle-wrong" }.into(),
                    Json::obj().set("epoch", ei).set("node", format!("{n:?}")).set("got", v).set("expected", stat[&n]).set("cyclic_nodes", format!("{cyc:?}")).set("mode", format!("{mode:?}")),
                ));
            }
        }
        if !out.violations.is_empty() {
            break 'h;
        }
        ever_cyclic.extend(cyc.iter().copied());
        let _ = ctx.log.take();
    }
    hooks::set_yield(YieldPolicy::Off, 0);
    let _ = ids;
    match bounded(shutdown(engine), 20).await {
        Wait::Ok(_) => {}
        Wait::Deadlock => out.violations.push(("deadlock-at-shutdown".into(), Json::Null)),
        Wait::Busy => {}
    }
    out
}

fn gen_history(r: &mut Rng, ids: &[NodeId], steps: usize, allow_par: bool) -> Vec<Epoch> {
    let n = ids.len();
    let mut ctrl: Vec<i64> = (0..n).map(|_| r.range(0, 1)).collect();
    let mut h = Vec::new();
    for _ in 0..steps {
        for _ in 0..1 + r.usize_below(2) {
            let i = r.usize_below(n);
            ctrl[i] = if ctrl[i] == 0 { 1 + r.range(0, 1) } else { 0 };
        }
        let k = 1 + r.usize_below(n);
        let mut roots: Vec<NodeId> = ids.to_vec();
        r.shuffle(&mut roots);
        roots.truncate(k);
        let mode = match r.below(6) {
            0 | 1 | 2 => Mode::Seq,
            3 => Mode::Join,
            _ if allow_par => Mode::Par(2 + r.usize_below(2)),
            _ => Mode::Seq,
        };
        h.push((ctrl.clone(), roots, mode));
    }
    h
}

pub fn worker(ctx: &WorkerCtx) -> Report {
    hooks::install();
    let mut rep = Report::default();
    let base = Rng::new(ctx.seed).derive(600 + ctx.shard as u64);
    let n: u64 = std::env::var("QV_C06_N").ok().and_then(|s| s.parse().ok()).unwrap_or(ctx.pick(3000, 60_000));
    let mut seen = HashSet::new();
    let mut cases: Vec<(Program, Vec<NodeId>, u64)> = Vec::new();
    if ctx.shard == 0 && std::env::var("QV_C06_CASE").is_err() {
        // fixed reproducer of the known finding C06-F2 (cycle through a firewall)
        ctx.announce("C06-F2 reproducer");
        let mut prog = Program::default();
        let (f0, n0) = (nid(Kind::F, 0), nid(Kind::N, 0));
        prog.nodes.insert(f0, NodeSpec { ops: vec![Op::Read(nid(Kind::In, 0)), Op::ReadIf { on: 0, pred: Pred::Gt(0), then: n0, els: None }], combine: Combine::SumPlus(100) });
        prog.nodes.insert(n0, NodeSpec { ops: vec![Op::Read(nid(Kind::In, 1)), Op::Read(f0)], combine: Combine::SumPlus(200) });
        let history: Vec<Epoch> = vec![(vec![0, 0], vec![n0], Mode::Seq), (vec![1, 0], vec![n0, f0], Mode::Seq)];
        let rt = tokio::runtime::Builder::new_current_thread().enable_all().build().unwrap();
        let out = rt.block_on(run_case(&MemBackend, Arc::new(prog), &[f0, n0], &history, 0, 1, false, None));
        rt.shutdown_timeout(Duration::from_secs(1));
        rep.evaluations += 1;
        if !out.violations.is_empty() || out.inconclusive.is_some() {
            let what = out.violations.first().map(|v| format!("{}: {}", v.0, v.1.render())).or(out.inconclusive.clone()).unwrap_or_default();
            ctx.violation(&Violation {
                signature: F2_SIG.into(),
                what,
                witness: Json::obj().set("reproducer", "F0=[In0, if In0>0 then N0]; N0=[In1, F0]; epoch0 In0=0 query N0; epoch1 In0=1 query N0,F0"),
            });
        } else {
            rep.count("C06-F2_reproducer_passes_now", 1);
        }
    }
    for i in 0..n {
        let mut r = base.derive(i);
        let nn = 2 + r.usize_below(5);
        let dens = *r.pick(&[20u64, 35, 50]);
        let mixed = r.chance(3, 10);
        let (mut p, mut ids) = cyc_program(&mut r, nn, dens, mixed);
        let mut tries = 0;
        while firewall_on_potential_cycle(&p) && tries < 20 {
            (p, ids) = cyc_program(&mut r, nn, dens.min(25), mixed);
            tries += 1;
        }
        if firewall_on_potential_cycle(&p) {
            (p, ids) = cyc_program(&mut r, nn, dens, false);
        } else if mixed {
            rep.count("cases_with_firewalls_off_cycle", 1);
        }
        cases.push((p, ids, r.next_u64()));
    }
    if ctx.tier == Tier::Thorough {
        // exhaustive: all edge sets on <= 3 normal nodes (unconditional or conditional per edge)
        let mut count = 0u64;
        for nn in 1..=3usize {
            let slots = nn * nn;
            let total = 3u64.pow(slots as u32);
            for code in 0..total {
                if code % ctx.nshards as u64 != ctx.shard as u64 {
                    continue;
                }
                let ids: Vec<NodeId> = (0..nn).map(|i| nid(Kind::N, i as u32)).collect();
                let mut prog = Program::default();
                let mut c = code;
                for i in 0..nn {
                    let mut ops = vec![Op::Read(nid(Kind::In, i as u32))];
                    for j in 0..nn {
                        match c % 3 {
                            1 => ops.push(Op::Read(ids[j])),
                            2 => ops.push(Op::ReadIf { on: 0, pred: Pred::Gt(0), then: ids[j], els: None }),
                            _ => {}
                        }
                        c /= 3;
                    }
                    prog.nodes.insert(ids[i], NodeSpec { ops, combine: Combine::SumPlus(100 * (i as i64 + 1)) });
                }
                cases.push((prog, ids, code));
                count += 1;
            }
        }
        rep.count("exhaustive_graphs_le_3_nodes", count);
        rep.count("exhaustive_parts", 1);
    }
    for (ci, (prog, ids, cseed)) in cases.into_iter().enumerate() {
        if let Ok(f) = std::env::var("QV_C06_CASE") {
            if f != ci.to_string() {
                continue;
            }
        }
        let mut r = Rng::new(cseed).derive(7);
        let workers = *r.pick(&[0usize, 0, 2, 4]);
        let steps = std::env::var("QV_C06_STEPS").ok().and_then(|s| s.parse().ok()).unwrap_or(4 + r.usize_below(9));
        let history = gen_history(&mut r, &ids, steps, true);
        let yields = if workers == 0 { *r.pick(&[0u64, 1, 3]) } else { 0 };
        let use_rec = r.chance(1, 3);
        let case = format!("C06 case {ci} nodes={} workers={workers} yields={yields}/8 rec={use_rec}", ids.len());
        ctx.announce(&case);
        let prog = Arc::new(prog);
        let rt = if workers == 0 {
            tokio::runtime::Builder::new_current_thread().enable_all().build().unwrap()
        } else {
            tokio::runtime::Builder::new_multi_thread().worker_threads(workers).enable_all().build().unwrap()
        };
        let cap = *r.pick(&[1u64, 8, 1 << 18]);
        let run = |pre: bool, stop: Option<usize>| {
            if use_rec {
                let b = RecBackend::new(cap, 1, Grouping::Never, cseed);
                rt.block_on(run_case(&b, prog.clone(), &ids, &history, yields, cseed, pre, stop))
            } else {
                rt.block_on(run_case(&MemBackend, prog.clone(), &ids, &history, yields, cseed, pre, stop))
            }
        };
        let mut out = run(false, None);
        let has_fw = ids.iter().any(|n| n.kind != Kind::N);
        // (also the wrong values downstream of an earlier cycle membership: in programs with
        // firewalls about half of them turned out to be C01-F1 - an executor-level read above an
        // unrepaired firewall - and not the cycle finding C06-F1 they used to be attributed to)
        let valueish = |k: &str| k == "acyclic-value-wrong" || k == "value-outside-cycle-wrong" || k == "cycle-member-not-default" || k == "stale-after-earlier-cycle-membership";
        if has_fw && out.violations.iter().any(|v| valueish(&v.0)) {
            // counterfactual classification of C01-F1: do the untainted value
            // violations disappear when the user repairs the firewalls first?
            let key = |d: &Json| (d.get("epoch").and_then(Json::as_i), d.get("node").and_then(Json::as_str).map(String::from));
            let failing_epoch = out.violations[0].1.get("epoch").and_then(Json::as_i).map(|e| e as usize);
            let cf = run(true, failing_epoch);
            if cf.inconclusive.is_none() {
                let still: Vec<_> = cf.violations.iter().map(|v| key(&v.1)).collect();
                let before = out.violations.len();
                out.violations.retain(|v| !valueish(&v.0) || still.contains(&key(&v.1)));
                if out.violations.len() < before {
                    rep.count("violations_attributed_to_C01-F1_by_counterfactual", (before - out.violations.len()) as u64);
                }
            }
        }
        rt.shutdown_timeout(Duration::from_secs(1));
        rep.evaluations += 1;
        rep.count("epochs_with_cycle", out.judged_cyc);
        rep.count("epochs_without_cycle", out.judged_acyc);
        rep.count("cases_cut_short_semantics_disagree", out.skipped);
        rep.count("concurrent_epochs", out.concurrent);
        if out.judged_cyc > 0 && out.judged_acyc > 0 {
            rep.distinct.insert(h64(&(prog.shape_hash(), format!("{history:?}"))));
        }
        if let Some(i) = out.inconclusive {
            rep.inconclusive.push(format!("{case}: {i}"));
        }
        if ci == 0 {
            rep.sample(Json::obj().set("program", prog.to_json()).set("history", Json::Arr(history.iter().map(|h| Json::Str(format!("{h:?}"))).collect())));
        }
        for (kind, d) in out.violations {
            if kind == "stale-after-earlier-cycle-membership" && !has_fw && ids.len() <= 3 && std::env::var("QV_C06_SMALL").is_ok() {
                eprintln!("SMALL {} | {} | {:?} | {}", d.render(), prog.to_json().render(), history, case);
            }
            if kind == "stale-after-earlier-cycle-membership" {
                rep.count(if has_fw { "tainted_wrong_values_in_programs_with_firewalls" } else { "tainted_wrong_values_in_normal_only_programs" }, 1);
            }
            let sig = if kind == "stale-after-earlier-cycle-membership" { F1_SIG.to_string() } else { format!("C06/{kind}") };
            if seen.insert(sig.clone()) {
                ctx.violation(&Violation {
                    signature: sig,
                    what: format!("{kind}: {}", d.render()),
                    witness: Json::obj().set("case", case.as_str()).set("detail", d).set("program", prog.to_json()).set("history", Json::Arr(history.iter().map(|h| Json::Str(format!("{h:?}"))).collect())),
                });
            } else {
                rep.count("repeat_violations_same_signature", 1);
            }
        }
    }
    let _ = BTreeMap::<u8, u8>::new();
    rep
}
