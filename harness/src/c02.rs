//! C02 - concurrent querying is sound, single-flight and terminates.
//!
//! (e) direct history check of the tiered backward-edge container with unique
//!     elements; (a-d) concurrent rounds against the engine: many callers of one
//!     callee computed at once, then every leaf edited in turn and everything
//!     re-queried sequentially (lost-invalidation detector).

use std::{
    collections::{HashMap, HashSet},
    sync::{
        Arc, Barrier,
        atomic::{AtomicU64, Ordering},
    },
};

use qbice::{
    engine::{YieldFrequency, verif::BackwardEdgeSet},
    query::QueryID,
};
use qbice_stable_hash::Compact128;

use crate::{
    c01::{BackendSpec, pick_cfg},
    eng::{Backend, MemBackend, Oracle, open_engine, query_node, shutdown},
    hooks::{self, PointPolicy},
    model::{Combine, ExecCtx, In, Kind, NodeId, NodeSpec, Op, Program, gen_program, GenParams, nid},
    sup::{CheckMeta, PartSpec, Report, Tier, Violation, WorkerCtx},
    util::{Json, Rng, h64},
};

pub fn meta(tier: Tier) -> CheckMeta {
    CheckMeta {
        id: "C02",
        level: "exploration",
        rule: "(e) container histories: T threads insert / remove unique elements (thread,counter) into one \
               backward-edge set while others iterate, barrier start, 33-64 elements per round so the 32->large \
               tier upgrade happens under contention; checked per element: insert returns true exactly once, an \
               element whose insert returned before an iteration started and that is never removed is seen by \
               it, final content = inserted minus removed. (a-d) engine rounds: fan-in programs (33..2000 callers \
               of one input / normal node / firewall) and random programs with Unordered/Join/Spawn ops, all \
               roots requested at once from 1..64 tracked engines on 2-16 worker threads (or one thread with \
               yields), single-flight overlap counter in the executors, then every leaf edited in turn and \
               all roots re-queried sequentially against the reference. distinct = hash(round config, program); \
               non-trivial = round with fan-in > 32 or with >= 2 tasks inside the engine at once.",
        assumptions: vec![
            "interleavings are sampled, not exhausted; thread counts above 16 not covered".into(),
            "hangs are decided by the supervisor's quiescence watchdog (no CPU, no progress)".into(),
        ],
        parts: {
            let mut parts = vec![PartSpec { name: "native", nshards: 8, budget_s: tier.pick(300, 2400), env: vec![], program: None, prepare: None, sanitizer: None }];
            if tier == Tier::Thorough { parts.push(crate::sup::sanitizer_part("miri", 8, tier.pick(900, 2400))); }
            if tier == Tier::Thorough { parts.push(crate::sup::sanitizer_part("tsan", 8, 2400)); }
            parts
        },
        must_be_nonzero: vec![
            ("container_rounds_crossing_32", "container never upgraded under contention"),
            ("engine_rounds_fan_in_over_32", "no engine round with fan-in > 32"),
            ("concurrent_requests", "no concurrent requests issued"),
        ],
    }
}

fn el(t: u64, n: u64) -> QueryID {
    QueryID::from_parts(Compact128::from(0x5E7u128), Compact128::from((u128::from(t) << 64) | u128::from(n)))
}

/// One container round. Returns Err(description) on a history violation.
fn container_round(r: &mut Rng, threads: usize, per_thread: u64, removers: bool, iterators: usize) -> Result<(u64, u64), String> {
    let set = BackwardEdgeSet::new();
    let clock = Arc::new(AtomicU64::new(0));
    let barrier = Arc::new(Barrier::new(threads + iterators));
    let mut hs = Vec::new();
    let seed = r.next_u64();
    for t in 0..threads as u64 {
        let set = set.clone();
        let clock = clock.clone();
        let barrier = barrier.clone();
        hs.push(std::thread::spawn(move || {
            let mut r = Rng::new(seed).derive(t);
            // (element counter, insert-return seq, removed?)
            let mut mine: Vec<(u64, u64, bool)> = Vec::new();
            let mut errs = Vec::new();
            barrier.wait();
            for n in 0..per_thread {
                let fresh = set.insert(el(t, n));
                let ret = clock.fetch_add(1, Ordering::SeqCst);
                if !fresh {
                    errs.push(format!("insert of fresh unique element ({t},{n}) returned false"));
                }
                mine.push((n, ret, false));
                if removers && r.chance(1, 4) && !mine.is_empty() {
                    let i = r.usize_below(mine.len());
                    if !mine[i].2 {
                        mine[i].2 = true;
                        if !set.remove(&el(t, mine[i].0)) {
                            errs.push(format!("remove of present element ({t},{}) returned false", mine[i].0));
                        }
                    }
                }
                if r.chance(1, 8) {
                    std::thread::yield_now();
                }
            }
            (t, mine, errs)
        }));
    }
    let mut its = Vec::new();
    for _ in 0..iterators {
        let set = set.clone();
        let clock = clock.clone();
        let barrier = barrier.clone();
        its.push(std::thread::spawn(move || {
            barrier.wait();
            let mut seen = Vec::new();
            for _ in 0..6 {
                let start = clock.fetch_add(1, Ordering::SeqCst);
                let els: HashSet<QueryID> = set.elements().into_iter().collect();
                seen.push((start, els));
                std::thread::yield_now();
            }
            seen
        }));
    }
    let mut all: HashMap<QueryID, (u64, bool)> = HashMap::new();
    let mut errs = Vec::new();
    for h in hs {
        let (t, mine, e) = h.join().map_err(|_| "writer thread panicked".to_string())?;
        errs.extend(e);
        for (n, ret, removed) in mine {
            all.insert(el(t, n), (ret, removed));
        }
    }
    let mut iter_checks = 0;
    for h in its {
        let seen = h.join().map_err(|_| "iterator thread panicked".to_string())?;
        for (start, els) in seen {
            for (e, (ret, removed)) in &all {
                if !*removed && *ret < start {
                    iter_checks += 1;
                    if !els.contains(e) {
                        errs.push(format!("iteration started at {start} misses element inserted at {ret} and never removed"));
                    }
                }
            }
            for e in &els {
                if !all.contains_key(e) {
                    errs.push("iteration yielded an element nobody inserted".into());
                }
            }
        }
    }
    let fin: HashSet<QueryID> = set.elements().into_iter().collect();
    let expect: HashSet<QueryID> = all.iter().filter(|(_, v)| !v.1).map(|(k, _)| *k).collect();
    if fin != expect {
        let lost = expect.difference(&fin).count();
        let extra = fin.difference(&expect).count();
        errs.push(format!("final content differs from inserted minus removed: {lost} lost, {extra} unexpected (expected {}, len() says {})", expect.len(), set.len()));
    }
    if set.len() != fin.len() {
        errs.push(format!("len() = {} but iteration yields {}", set.len(), fin.len()));
    }
    if errs.is_empty() { Ok((all.len() as u64, iter_checks)) } else { Err(errs.join("; ")) }
}

// ---------------------------------------------------------------------------

fn fan_in_program(r: &mut Rng, callers: u32) -> (Program, Vec<NodeId>, Vec<u32>) {
    let mut p = Program::default();
    let shape = r.below(3);
    let callee = match shape {
        0 => nid(Kind::In, 0),
        1 => {
            p.nodes.insert(nid(Kind::N, 900_000), NodeSpec { ops: vec![Op::Read(nid(Kind::In, 0))], combine: Combine::SumPlus(1) });
            nid(Kind::N, 900_000)
        }
        _ => {
            p.nodes.insert(nid(Kind::F, 0), NodeSpec { ops: vec![Op::Read(nid(Kind::In, 0))], combine: Combine::SumPlus(2) });
            nid(Kind::F, 0)
        }
    };
    let mut roots = Vec::new();
    for i in 0..callers {
        let n = nid(Kind::N, i);
        let mut ops = vec![Op::Read(callee)];
        if r.chance(1, 6) {
            ops.push(Op::Read(nid(Kind::In, 1)));
        }
        p.nodes.insert(n, NodeSpec { ops, combine: Combine::Scale(1000, i64::from(i)) });
        roots.push(n);
    }
    (p, roots, vec![0, 1])
}

struct RoundCfg {
    workers: usize,
    engines: usize,
    shared_engine: bool,
    exec_yields: u32,
    exec_sleep_us: u32,
    delay: bool,
    /// after each edit the roots are asked again *concurrently* (several tracked engines,
    /// barrier start) instead of one after the other. Only sound on programs in which no
    /// executor reads a query above a firewall (the fan-in programs: every root reads the
    /// shared callee directly), because nothing masks the known finding C01-F1 here.
    concurrent_requery: bool,
}

/// Run one concurrent round; returns violations (kind, detail).
fn engine_round<B: Backend>(b: &B, prog: Arc<Program>, roots: &[NodeId], inputs: &[u32], rc: &RoundCfg, seed: u64, rep: &mut Report) -> Vec<(String, Json)> {
    let rt = if rc.workers == 0 {
        tokio::runtime::Builder::new_current_thread().enable_all().build().unwrap()
    } else {
        tokio::runtime::Builder::new_multi_thread().worker_threads(rc.workers).enable_all().build().unwrap()
    };
    let mut out = Vec::new();
    if rc.delay {
        hooks::set_point(PointPolicy::Delay { max_us: 60, num: 1, den: 6 });
    }
    rt.block_on(async {
        let ctx = ExecCtx::new(prog.clone());
        ctx.exec_yields.store(rc.exec_yields, Ordering::Relaxed);
        ctx.exec_sleep_us.store(rc.exec_sleep_us, Ordering::Relaxed);
        let mut or = Oracle::new(prog.clone());
        let engine = open_engine(b, &ctx, YieldFrequency::Never).await.expect("open");
        let mut r = Rng::new(seed);
        // initial inputs
        or.begin_session();
        ctx.epoch.store(or.epoch, Ordering::SeqCst);
        {
            let mut s = engine.input_session().await;
            for i in inputs {
                let v = r.range(1, 5);
                s.set_input(In(*i), v).await;
                or.refr.inputs.insert(*i, v);
            }
            s.commit().await;
        }
        // concurrent phase
        let (exp, _) = or.expect(roots);
        let mut hs = Vec::new();
        let shared = if rc.shared_engine { Some(Arc::new(engine.clone().tracked().await)) } else { None };
        let k = rc.engines.max(1);
        let start = Arc::new(tokio::sync::Barrier::new(k));
        for c in 0..k {
            let mine: Vec<NodeId> = roots.iter().copied().skip(c).step_by(k).collect();
            let e = engine.clone();
            let shared = shared.clone();
            let start = start.clone();
            hs.push(tokio::spawn(async move {
                let own;
                let t = match &shared {
                    Some(t) => t.as_ref(),
                    None => {
                        own = e.tracked().await;
                        &own
                    }
                };
                start.wait().await;
                let vs = futures::future::join_all(mine.iter().map(|n| query_node(t, *n))).await;
                mine.into_iter().zip(vs).collect::<Vec<_>>()
            }));
        }
        rep.count("concurrent_requests", roots.len() as u64);
        for h in hs {
            match h.await {
                Ok(vs) => {
                    for (n, v) in vs {
                        if exp[&n] != v {
                            out.push(("concurrent-value-differs".to_string(), Json::obj().set("node", format!("{n:?}")).set("got", v).set("expected", exp[&n])));
                        }
                    }
                }
                Err(e) => out.push(("query-task-failed".into(), Json::obj().set("error", e.to_string()))),
            }
        }
        drop(shared);
        let recs = ctx.log.take();
        or.judge(&recs, false, false);
        for (n, _) in std::mem::take(&mut *ctx.log.overlaps.lock()) {
            out.push(("single-flight-overlap".into(), Json::obj().set("node", format!("{n:?}"))));
        }
        // lost-invalidation detector: edit every leaf in turn, re-query sequentially
        for (round, i) in inputs.iter().enumerate() {
            or.begin_session();
            ctx.epoch.store(or.epoch, Ordering::SeqCst);
            let nv = or.refr.inputs[i] + 7 + round as i64;
            {
                let mut s = engine.input_session().await;
                s.set_input(In(*i), nv).await;
                s.commit().await;
            }
            or.refr.inputs.insert(*i, nv);
            let (exp, _) = or.expect(roots);
            let mut stale = Vec::new();
            if rc.concurrent_requery {
                let k = rc.engines.max(2).min(roots.len().max(1));
                let start = Arc::new(tokio::sync::Barrier::new(k));
                let mut hs = Vec::new();
                for c in 0..k {
                    let mine: Vec<NodeId> = roots.iter().copied().skip(c).step_by(k).collect();
                    let (e, start) = (engine.clone(), start.clone());
                    hs.push(tokio::spawn(async move {
                        let t = e.tracked().await;
                        start.wait().await;
                        let vs = futures::future::join_all(mine.iter().map(|n| query_node(&t, *n))).await;
                        mine.into_iter().zip(vs).collect::<Vec<_>>()
                    }));
                }
                rep.count("concurrent_requests_after_an_edit", roots.len() as u64);
                for h in hs {
                    match h.await {
                        Ok(vs) => {
                            for (n, v) in vs {
                                if v != exp[&n] {
                                    stale.push(format!("{n:?}: got {v} expected {}", exp[&n]));
                                }
                            }
                        }
                        Err(e) => out.push(("query-task-failed".into(), Json::obj().set("error", e.to_string()))),
                    }
                }
            } else {
                let t = engine.clone().tracked().await;
                // (the known finding C01-F1 - executor-level reads skip the firewall repair - is
                // not this check's subject: the user repairs below every root first; a lost
                // backward edge is not healed by that)
                crate::eng::prerepair_tfc(&t, &crate::eng::topo_order(&prog, roots)).await;
                for n in roots {
                    let v = query_node(&t, *n).await;
                    if v != exp[n] {
                        stale.push(format!("{n:?}: got {v} expected {}", exp[n]));
                    }
                }
                drop(t);
            }
            if !stale.is_empty() {
                out.push((
                    "lost-invalidation-after-concurrent-phase".into(),
                    Json::obj().set("edited_input", *i).set("stale_count", stale.len()).set("of", roots.len()).set("examples", Json::Arr(stale.iter().take(4).map(|s| Json::Str(s.clone())).collect())),
                ));
            }
            let recs = ctx.log.take();
            or.judge(&recs, false, false);
        }
        for (p, kind, d) in &or.violations {
            // C02 judges values, single flight and at-most-once; other C03
            // verdicts (incl. the known finding C03-F1) belong to C03
            if (p == "C01" && out.is_empty()) || p == "C02" || kind == "executed-twice-in-one-epoch" {
                out.push((format!("{p}:{kind}"), d.clone()));
            }
        }
        rep.count("exec_records", or.stats.exec_records);
        if !shutdown(engine).await {
            rep.inconclusive.push("engine still referenced at shutdown".into());
        }
    });
    hooks::set_point(PointPolicy::Off);
    rt.shutdown_timeout(std::time::Duration::from_secs(2));
    out
}

fn signature(kind: &str, fan: u32, concurrent: bool) -> String {
    if kind == "lost-invalidation-after-concurrent-phase" && fan > 32 && concurrent {
        return "C02/lost-backward-edge: > 32 callers of one callee computed concurrently, callers stale after the next edit".into();
    }
    format!("C02/{kind}")
}

pub fn worker(ctx: &WorkerCtx) -> Report {
    hooks::install();
    let mut rep = Report::default();
    let base = Rng::new(ctx.seed).derive(200 + ctx.shard as u64);
    // ---- (e) container histories
    let rounds: u64 = if ctx.part == "miri" { 2 } else { ctx.pick(30_000, 600_000) };
    let mut container_bad = 0;
    for i in 0..rounds {
        let mut r = base.derive(i);
        let threads = 2 + r.usize_below(if ctx.part == "miri" { 2 } else { 7 });
        let total = 33 + r.below(32);
        let per = total.div_ceil(threads as u64);
        let removers = r.chance(1, 3);
        let iters = r.usize_below(3);
        if i % 200 == 0 {
            ctx.announce(&format!("container round {i} threads={threads} per_thread={per} removers={removers} iterators={iters}"));
        }
        rep.evaluations += 1;
        match container_round(&mut r, threads, per, removers, iters) {
            Ok((els, checks)) => {
                rep.count("container_elements", els);
                rep.count("container_iteration_checks", checks);
                rep.count("container_rounds_crossing_32", 1);
                if i % 16 == 0 {
                    rep.distinct.insert(h64(&("container", threads, per, removers, iters)));
                }
            }
            Err(e) => {
                container_bad += 1;
                if container_bad <= 2 {
                    ctx.violation(&Violation {
                        signature: "C02/backward-edge-container-history: unique-element history is not linearizable across the 32-element tier upgrade".into(),
                        what: e.clone(),
                        witness: Json::obj().set("round", i).set("threads", threads).set("per_thread", per).set("removers", removers).set("iterators", iters).set("detail", e),
                    });
                }
            }
        }
    }
    rep.count("container_rounds_violating", container_bad);
    if ctx.part == "miri" {
        return rep;
    }
    // ---- engine rounds
    let n: u64 = ctx.pick(300, 5000);
    let mut seen = HashSet::new();
    for i in 0..n {
        let mut r = base.derive(1_000_000 + i);
        let fan_round = i % 3 != 2;
        let (prog, roots, inputs, fan) = if fan_round {
            let fan = match r.below(8) {
                0 => 20 + r.below(12) as u32,
                1..=4 => 33 + r.below(30) as u32,
                5 | 6 => 64 + r.below(200) as u32,
                _ => ctx.pick(300, 2000) as u32,
            };
            let (p, roots, inputs) = fan_in_program(&mut r, fan);
            (p, roots, inputs, fan)
        } else {
            let gp = GenParams { inputs: 3, xs: 0, nodes: 10 + r.below(30) as u32, max_ops: 3, p_firewall: 20, p_projection: 15, fancy_ops: true };
            let p = gen_program(&mut r, &gp);
            let roots: Vec<NodeId> = p.nodes.keys().copied().collect();
            (p, roots, vec![0, 1, 2], 0)
        };
        let workers = *r.pick(&[0usize, 2, 4, 16, 16, 16]);
        let engines = *r.pick(&[1usize, 2, 4, 16, 64]);
        let rc = RoundCfg {
            workers,
            engines: engines.min(roots.len().max(1)),
            shared_engine: r.chance(1, 2),
            exec_yields: *r.pick(&[0u32, 0, 1, 2]),
            exec_sleep_us: *r.pick(&[0u32, 0, 0, 30]),
            delay: r.chance(1, 3),
            concurrent_requery: fan_round && r.chance(1, 2),
        };
        let (_, spec) = pick_cfg(&mut r);
        let case = format!("engine round {i} fan={fan} roots={} workers={workers} engines={} shared={} backend={spec:?}", roots.len(), rc.engines, rc.shared_engine);
        ctx.announce(&case);
        rep.evaluations += 1;
        let prog = Arc::new(prog);
        let seed = r.next_u64();
        let viol = match &spec {
            BackendSpec::Mem => engine_round(&MemBackend, prog.clone(), &roots, &inputs, &rc, seed, &mut rep),
            s => engine_round(&s.rec().unwrap(), prog.clone(), &roots, &inputs, &rc, seed, &mut rep),
        };
        if fan > 32 {
            rep.count("engine_rounds_fan_in_over_32", 1);
        }
        if fan > 1024 {
            rep.count("engine_rounds_fan_in_over_1024", 1);
        }
        let concurrent = rc.engines > 1 || roots.len() > 1;
        if fan > 32 || concurrent {
            rep.distinct.insert(h64(&(prog.shape_hash(), workers, rc.engines, rc.shared_engine, format!("{spec:?}"))));
        }
        if i == 0 {
            rep.sample(Json::obj().set("case", case.as_str()));
        }
        for (kind, d) in viol {
            let sig = signature(&kind, fan, workers > 0);
            if seen.insert(sig.clone()) {
                ctx.violation(&Violation {
                    signature: sig,
                    what: format!("{kind}: {}", d.render()),
                    witness: Json::obj().set("case", case.as_str()).set("detail", d).set("program_nodes", prog.nodes.len()).set("round_seed", seed),
                });
            } else {
                rep.count("repeat_violations_same_signature", 1);
            }
        }
    }
    // ---- first-time requests racing the firewall's backward projection
    // (projection fan over one firewall; in every epoch the firewall's input changes and
    // consumers computed before - whose request repairs the firewall, which then walks its
    // callers - are requested concurrently with consumers requested for the first time, whose
    // projections are completing and registering themselves as callers meanwhile).
    // Oracle: every request returns (no panic reaches the caller) with the from-scratch value.
    let n: u64 = ctx.pick(4000, 24000);
    let mut reported = false;
    for i in 0..n {
        let mut r = base.derive(2_000_000 + i);
        let scale = *r.pick(&[12u32, 24, 34, 40, 70]);
        let prog = crate::model::gen_family(&mut r, 1, scale);
        let history = crate::c01::fresh_projection_history(&mut r, scale);
        let case = crate::c01::Case { prog: Arc::new(prog), history, fan: scale };
        let cfg = crate::c01::CaseCfg { backend: "InMemory".into(), rt_workers: *r.pick(&[2usize, 4, 4, 8]), yield_every: *r.pick(&[None, None, Some(3usize)]), exec_yields: *r.pick(&[0u32, 0, 1]) };
        let what = format!("first-time fan round {i} scale={scale} cfg={cfg:?} steps={}", case.history.len());
        ctx.announce(&what);
        rep.evaluations += 1;
        rep.count("first_time_fan_rounds", 1);
        let mark = crate::sup::panic_mark();
        let out = std::panic::catch_unwind(std::panic::AssertUnwindSafe(|| crate::c01::run_on(&MemBackend, &case, &cfg)));
        match out {
            Ok(Ok(o)) => {
                rep.count("first_time_fan_query_returns", o.oracle.stats.query_returns);
                rep.distinct.insert(h64(&(case.prog.shape_hash(), format!("{:?}", case.history), cfg.rt_workers)));
                // wrong values here are C01's subject (and carry C01-F1); not judged by C02
            }
            Ok(Err(e)) => rep.inconclusive.push(format!("{what}: {e}")),
            Err(_) => {
                let panics = crate::sup::panics_since(mark);
                rep.count("first_time_fan_rounds_with_a_panic", 1);
                if !reported {
                    reported = true;
                    ctx.violation(&Violation {
                        signature: "C02/panic-reaches-a-concurrent-request [first-time requests while a firewall walks its callers]".into(),
                        what: format!("a request panicked: {}", panics.iter().rev().take(2).cloned().collect::<Vec<_>>().join(" <- ")),
                        witness: Json::obj().set("case", what.as_str()).set("panics", Json::Arr(panics.into_iter().map(Json::Str).collect())).set("program", case.prog.to_json()).set("history", crate::eng::history_json(&case.history)),
                    });
                }
            }
        }
    }
    rep
}
