//! Program model for the engine-level properties (DESIGN 2.3-2.5): query
//! types, node specs, the op language, executors that interpret a spec, the
//! execution log and the from-scratch reference evaluator.

use std::{
    collections::{BTreeMap, HashMap},
    sync::{
        Arc,
        atomic::{AtomicU32, AtomicU64, Ordering},
    },
};

use parking_lot::Mutex;
use qbice::{
    Config, Decode, Encode, ExecutionStyle, Executor, Identifiable, Query, StableHash,
    TrackedEngine,
};

use crate::util::{Json, Rng};

macro_rules! qtype {
    ($n:ident) => {
        #[derive(
            Debug, Clone, Copy, PartialEq, Eq, PartialOrd, Ord, Hash, StableHash, Encode, Decode,
            Identifiable,
        )]
        pub struct $n(pub u32);
        impl Query for $n {
            type Value = i64;
        }
    };
}
qtype!(In);
qtype!(N);
qtype!(F);
qtype!(P);
qtype!(X);

#[derive(Clone, Copy, PartialEq, Eq, Hash, PartialOrd, Ord, Debug)]
pub enum Kind {
    In,
    N,
    F,
    P,
    X,
}

#[derive(Clone, Copy, PartialEq, Eq, Hash, PartialOrd, Ord)]
pub struct NodeId {
    pub kind: Kind,
    pub idx: u32,
}

impl std::fmt::Debug for NodeId {
    fn fmt(&self, f: &mut std::fmt::Formatter<'_>) -> std::fmt::Result {
        write!(f, "{:?}{}", self.kind, self.idx)
    }
}

pub const fn nid(kind: Kind, idx: u32) -> NodeId { NodeId { kind, idx } }

pub const SCC_N: i64 = -1001;
pub const SCC_F: i64 = -1002;
pub const SCC_P: i64 = -1003;

#[derive(Clone, Copy, Debug, PartialEq, Eq)]
pub enum Pred {
    Even,
    Gt(i64),
    Zero,
    Neg,
}

impl Pred {
    pub fn test(self, v: i64) -> bool {
        match self {
            Self::Even => v.rem_euclid(2) == 0,
            Self::Gt(t) => v > t,
            Self::Zero => v == 0,
            Self::Neg => v < 0,
        }
    }
}

#[derive(Clone, Debug, PartialEq, Eq)]
pub enum Op {
    Read(NodeId),
    /// `on` indexes the values read so far by this node (must exist)
    ReadIf { on: usize, pred: Pred, then: NodeId, els: Option<NodeId> },
    Unordered(Vec<NodeId>),
    Join(Vec<NodeId>),
    Spawn(NodeId),
    Yield,
}

#[derive(Clone, Copy, Debug, PartialEq, Eq)]
pub enum Combine {
    Sum,
    SumPlus(i64),
    Min,
    Max,
    Parity,
    Clamp(i64, i64),
    CountNonZero,
    Const(i64),
    Sign,
    Bucket(i64),
    /// first * 1000 + idx-like constant: keeps information (no absorption)
    Scale(i64, i64),
}

impl Combine {
    pub fn apply(self, v: &[i64]) -> i64 {
        let sum = v.iter().fold(0i64, |a, b| a.wrapping_add(*b));
        let r = match self {
            Self::Sum => sum,
            Self::SumPlus(k) => sum.wrapping_add(k),
            Self::Min => v.iter().copied().min().unwrap_or(0),
            Self::Max => v.iter().copied().max().unwrap_or(0),
            Self::Parity => v.first().copied().unwrap_or(0).rem_euclid(2),
            Self::Clamp(lo, hi) => sum.clamp(lo, hi),
            Self::CountNonZero => v.iter().filter(|x| **x != 0).count() as i64,
            Self::Const(c) => c,
            Self::Sign => sum.signum(),
            Self::Bucket(m) => sum.div_euclid(m.max(1)),
            Self::Scale(a, b) => v.first().copied().unwrap_or(0).wrapping_mul(a).wrapping_add(b),
        };
        // keep values inside a range that never collides with the cycle sentinels
        r.rem_euclid(1_000_000_007) % 500_000_000
    }
}

#[derive(Clone, Debug, PartialEq, Eq)]
pub struct NodeSpec {
    pub ops: Vec<Op>,
    pub combine: Combine,
}

#[derive(Clone, Debug, Default)]
pub struct Program {
    pub nodes: BTreeMap<NodeId, NodeSpec>,
    /// the executor of `.0` panics when its computed value equals `.1`
    pub poison: Option<(NodeId, i64)>,
}

impl Program {
    pub fn spec(&self, n: NodeId) -> &NodeSpec {
        self.nodes.get(&n).unwrap_or_else(|| panic!("no spec for {n:?}"))
    }

    pub fn static_deps(&self, n: NodeId) -> Vec<NodeId> {
        let mut v = Vec::new();
        if let Some(s) = self.nodes.get(&n) {
            for op in &s.ops {
                match op {
                    Op::Read(d) | Op::Spawn(d) => v.push(*d),
                    Op::ReadIf { then, els, .. } => {
                        v.push(*then);
                        if let Some(e) = els {
                            v.push(*e);
                        }
                    }
                    Op::Unordered(ds) | Op::Join(ds) => v.extend(ds.iter().copied()),
                    Op::Yield => {}
                }
            }
        }
        v
    }

    pub fn to_json(&self) -> Json {
        let mut o = Vec::new();
        for (n, s) in &self.nodes {
            o.push((format!("{n:?}"), Json::Str(format!("{:?} <- {:?}", s.combine, s.ops))));
        }
        let mut j = Json::obj().set("nodes", Json::Obj(o));
        if let Some(p) = self.poison {
            j.put("poison", format!("{p:?}"));
        }
        j
    }

    pub fn shape_hash(&self) -> u64 {
        crate::util::h64(&format!("{:?}{:?}", self.nodes, self.poison))
    }
}

// ---------------------------------------------------------------------------
// execution log

#[derive(Clone, Debug, PartialEq, Eq)]
pub enum ExecResult {
    Value(i64),
    Panicked,
    /// the executor future was dropped (cancellation or cyclic unwinding)
    Dropped,
}

#[derive(Clone, Debug)]
pub struct ExecRecord {
    pub node: NodeId,
    pub epoch: u64,
    pub seq_enter: u64,
    pub seq_exit: u64,
    pub reads: Vec<(NodeId, i64)>,
    pub result: ExecResult,
}

#[derive(Default)]
pub struct ExecLog {
    pub seq: AtomicU64,
    pub records: Mutex<Vec<ExecRecord>>,
    /// single-flight violations seen online: (node, seq)
    pub overlaps: Mutex<Vec<(NodeId, u64)>>,
}

impl ExecLog {
    pub fn tick(&self) -> u64 { self.seq.fetch_add(1, Ordering::SeqCst) }

    pub fn take(&self) -> Vec<ExecRecord> { std::mem::take(&mut *self.records.lock()) }
}

pub struct ExecCtx {
    pub program: Arc<Program>,
    pub cells: Mutex<HashMap<u32, i64>>,
    pub log: ExecLog,
    pub epoch: AtomicU64,
    active: HashMap<NodeId, AtomicU32>,
    /// executors yield (tokio yield_now) this many times before returning
    pub exec_yields: AtomicU32,
    /// when non-zero, executors sleep up to this many microseconds (parallel stress)
    pub exec_sleep_us: AtomicU32,
}

impl ExecCtx {
    pub fn new(program: Arc<Program>) -> Arc<Self> {
        let active = program.nodes.keys().map(|n| (*n, AtomicU32::new(0))).collect();
        Arc::new(Self {
            program,
            cells: Mutex::new(HashMap::new()),
            log: ExecLog::default(),
            epoch: AtomicU64::new(0),
            active,
            exec_yields: AtomicU32::new(0),
            exec_sleep_us: AtomicU32::new(0),
        })
    }
}

struct ExecGuard<'a> {
    ctx: &'a ExecCtx,
    node: NodeId,
    seq_enter: u64,
    reads: Arc<Mutex<Vec<(NodeId, i64)>>>,
    done: Option<ExecResult>,
}

impl Drop for ExecGuard<'_> {
    fn drop(&mut self) {
        if let Some(a) = self.ctx.active.get(&self.node) {
            a.fetch_sub(1, Ordering::SeqCst);
        }
        let result = self.done.take().unwrap_or(if std::thread::panicking() {
            ExecResult::Panicked
        } else {
            ExecResult::Dropped
        });
        let rec = ExecRecord {
            node: self.node,
            epoch: self.ctx.epoch.load(Ordering::SeqCst),
            seq_enter: self.seq_enter,
            seq_exit: self.ctx.log.tick(),
            reads: self.reads.lock().clone(),
            result,
        };
        self.ctx.log.records.lock().push(rec);
    }
}

async fn read<C: Config>(
    ctx: &Arc<ExecCtx>,
    engine: &TrackedEngine<C>,
    reads: &Arc<Mutex<Vec<(NodeId, i64)>>>,
    dep: NodeId,
) -> i64 {
    let v = match dep.kind {
        Kind::In => engine.query(&In(dep.idx)).await,
        Kind::N => engine.query(&N(dep.idx)).await,
        Kind::F => engine.query(&F(dep.idx)).await,
        Kind::P => engine.query(&P(dep.idx)).await,
        Kind::X => engine.query(&X(dep.idx)).await,
    };
    let _ = ctx;
    reads.lock().push((dep, v));
    v
}

pub async fn run_node<C: Config>(
    ctx: &Arc<ExecCtx>,
    node: NodeId,
    engine: &TrackedEngine<C>,
) -> i64 {
    let seq_enter = ctx.log.tick();
    if let Some(a) = ctx.active.get(&node) {
        if a.fetch_add(1, Ordering::SeqCst) != 0 {
            ctx.log.overlaps.lock().push((node, seq_enter));
        }
    }
    let reads = Arc::new(Mutex::new(Vec::new()));
    let mut guard = ExecGuard { ctx, node, seq_enter, reads: reads.clone(), done: None };

    if node.kind == Kind::X {
        let v = ctx.cells.lock().get(&node.idx).copied().unwrap_or(0);
        guard.done = Some(ExecResult::Value(v));
        return v;
    }

    for _ in 0..ctx.exec_yields.load(Ordering::Relaxed) {
        tokio::task::yield_now().await;
    }
    let us = ctx.exec_sleep_us.load(Ordering::Relaxed);
    if us > 0 {
        let d = (seq_enter.wrapping_mul(0x9E37_79B9) >> 7) % u64::from(us);
        std::thread::sleep(std::time::Duration::from_micros(d));
    }

    let spec = ctx.program.spec(node).clone();
    let mut vals: Vec<i64> = Vec::new();
    for op in &spec.ops {
        match op {
            Op::Read(d) => vals.push(read(ctx, engine, &reads, *d).await),
            Op::ReadIf { on, pred, then, els } => {
                let c = vals.get(*on).copied().unwrap_or(0);
                if pred.test(c) {
                    vals.push(read(ctx, engine, &reads, *then).await);
                } else if let Some(e) = els {
                    vals.push(read(ctx, engine, &reads, *e).await);
                }
            }
            Op::Unordered(ds) => {
                unsafe { engine.start_unordered_callee_group() };
                let rs =
                    futures::future::join_all(ds.iter().map(|d| read(ctx, engine, &reads, *d)))
                        .await;
                unsafe { engine.end_unordered_callee_group() };
                vals.extend(rs);
            }
            Op::Join(ds) => {
                let rs =
                    futures::future::join_all(ds.iter().map(|d| read(ctx, engine, &reads, *d)))
                        .await;
                vals.extend(rs);
            }
            Op::Spawn(d) => {
                let e = engine.clone();
                let c = ctx.clone();
                let r = reads.clone();
                let d = *d;
                let h = tokio::spawn(async move { read(&c, &e, &r, d).await });
                match h.await {
                    Ok(v) => vals.push(v),
                    Err(e) => {
                        if e.is_panic() {
                            std::panic::resume_unwind(e.into_panic());
                        }
                        panic!("spawned read was cancelled");
                    }
                }
            }
            Op::Yield => tokio::task::yield_now().await,
        }
    }
    let v = spec.combine.apply(&vals);
    if let Some((pn, pv)) = ctx.program.poison {
        if pn == node && pv == v {
            panic!("injected executor panic in {node:?}");
        }
    }
    guard.done = Some(ExecResult::Value(v));
    v
}

macro_rules! executor {
    ($name:ident, $q:ident, $kind:expr, $style:expr, $scc:expr) => {
        pub struct $name(pub Arc<ExecCtx>);
        impl<C: Config> Executor<$q, C> for $name {
            async fn execute(&self, q: &$q, engine: &TrackedEngine<C>) -> i64 {
                run_node(&self.0, nid($kind, q.0), engine).await
            }
            fn execution_style() -> ExecutionStyle { $style }
            fn scc_value() -> i64 { $scc }
        }
    };
}
executor!(ExecN, N, Kind::N, ExecutionStyle::Normal, SCC_N);
executor!(ExecF, F, Kind::F, ExecutionStyle::Firewall, SCC_F);
executor!(ExecP, P, Kind::P, ExecutionStyle::Projection, SCC_P);
executor!(ExecX, X, Kind::X, ExecutionStyle::ExternalInput, 0);

// ---------------------------------------------------------------------------
// reference evaluator

#[derive(Clone, Debug, Default)]
pub struct Reference {
    pub inputs: HashMap<u32, i64>,
    /// external cell values as captured at the executor's last legitimate run
    pub xcap: HashMap<u32, i64>,
}

pub struct Eval<'a> {
    pub prog: &'a Program,
    pub inputs: &'a HashMap<u32, i64>,
    pub xcap: &'a mut HashMap<u32, i64>,
    pub cells: &'a HashMap<u32, i64>,
    /// capture uncaptured external cells (true while following an engine
    /// query) or only peek (false: C03 justification look-ups)
    pub capture: bool,
    pub memo: HashMap<NodeId, i64>,
    pub reads: HashMap<NodeId, Vec<(NodeId, i64)>>,
    /// inputs that were read but never set (generator bug if non-empty)
    pub unset: Vec<u32>,
}

impl<'a> Eval<'a> {
    pub fn new(
        prog: &'a Program,
        inputs: &'a HashMap<u32, i64>,
        xcap: &'a mut HashMap<u32, i64>,
        cells: &'a HashMap<u32, i64>,
        capture: bool,
    ) -> Self {
        Self {
            prog,
            inputs,
            xcap,
            cells,
            capture,
            memo: HashMap::new(),
            reads: HashMap::new(),
            unset: vec![],
        }
    }

    pub fn eval(&mut self, n: NodeId) -> i64 {
        if let Some(v) = self.memo.get(&n) {
            return *v;
        }
        let v = match n.kind {
            Kind::In => match self.inputs.get(&n.idx) {
                Some(v) => *v,
                None => {
                    self.unset.push(n.idx);
                    0
                }
            },
            Kind::X => {
                if let Some(v) = self.xcap.get(&n.idx) {
                    *v
                } else {
                    let v = self.cells.get(&n.idx).copied().unwrap_or(0);
                    if self.capture {
                        self.xcap.insert(n.idx, v);
                    }
                    v
                }
            }
            _ => {
                let spec = self.prog.spec(n).clone();
                let mut vals = Vec::new();
                let mut reads = Vec::new();
                for op in &spec.ops {
                    match op {
                        Op::Read(d) | Op::Spawn(d) => {
                            let v = self.eval(*d);
                            vals.push(v);
                            reads.push((*d, v));
                        }
                        Op::ReadIf { on, pred, then, els } => {
                            let c = vals.get(*on).copied().unwrap_or(0);
                            let d = if pred.test(c) { Some(*then) } else { *els };
                            if let Some(d) = d {
                                let v = self.eval(d);
                                vals.push(v);
                                reads.push((d, v));
                            }
                        }
                        Op::Unordered(ds) | Op::Join(ds) => {
                            for d in ds {
                                let v = self.eval(*d);
                                vals.push(v);
                                reads.push((*d, v));
                            }
                        }
                        Op::Yield => {}
                    }
                }
                self.reads.insert(n, reads);
                spec.combine.apply(&vals)
            }
        };
        self.memo.insert(n, v);
        v
    }
}

// ---------------------------------------------------------------------------
// program generation

#[derive(Clone, Debug)]
pub struct GenParams {
    pub inputs: u32,
    pub xs: u32,
    pub nodes: u32,
    pub max_ops: usize,
    pub p_firewall: u64, // out of 100
    pub p_projection: u64,
    pub fancy_ops: bool, // Unordered / Join / Spawn / Yield
}

impl Default for GenParams {
    fn default() -> Self {
        Self { inputs: 4, xs: 1, nodes: 12, max_ops: 3, p_firewall: 25, p_projection: 20, fancy_ops: true }
    }
}

fn gen_combine(r: &mut Rng, tag: i64) -> Combine {
    match r.below(14) {
        0 | 1 => Combine::Sum,
        2 => Combine::SumPlus(tag),
        3 => Combine::Min,
        4 => Combine::Max,
        5 => Combine::Parity,
        6 => Combine::Clamp(-1, 2),
        7 => Combine::Clamp(0, 5),
        8 => Combine::CountNonZero,
        9 => Combine::Const(tag % 7),
        10 => Combine::Sign,
        11 => Combine::Bucket(3),
        _ => Combine::Scale(1000, tag),
    }
}

fn gen_pred(r: &mut Rng) -> Pred {
    match r.below(4) {
        0 => Pred::Even,
        1 => Pred::Gt(r.range(-1, 3)),
        2 => Pred::Zero,
        _ => Pred::Neg,
    }
}

/// Random acyclic program. Nodes are created in rank order; a node reads only
/// lower-ranked nodes; projections read only firewalls / projections.
pub fn gen_program(r: &mut Rng, p: &GenParams) -> Program {
    let mut prog = Program::default();
    let mut all: Vec<NodeId> = Vec::new();
    let mut fp: Vec<NodeId> = Vec::new(); // firewalls + projections so far
    for i in 0..p.inputs {
        all.push(nid(Kind::In, i));
    }
    for i in 0..p.xs {
        all.push(nid(Kind::X, i));
    }
    let (mut nn, mut nf, mut np) = (0u32, 0u32, 0u32);
    for rank in 0..p.nodes {
        let roll = r.below(100);
        let kind = if roll < p.p_projection && !fp.is_empty() {
            Kind::P
        } else if roll < p.p_projection + p.p_firewall {
            Kind::F
        } else {
            Kind::N
        };
        let id = match kind {
            Kind::N => {
                nn += 1;
                nid(Kind::N, nn - 1)
            }
            Kind::F => {
                nf += 1;
                nid(Kind::F, nf - 1)
            }
            _ => {
                np += 1;
                nid(Kind::P, np - 1)
            }
        };
        let pool: &Vec<NodeId> = if kind == Kind::P { &fp } else { &all };
        // bias towards recent nodes so that depth builds up
        let pick = |r: &mut Rng| -> NodeId {
            let n = pool.len();
            if r.chance(2, 3) && n > 3 { pool[n - 1 - r.usize_below(n.min(5))] } else { pool[r.usize_below(n)] }
        };
        let nops = 1 + r.usize_below(p.max_ops);
        let mut ops = Vec::new();
        let mut nvals = 0usize; // lower bound of values read so far
        for _ in 0..nops {
            let c = r.below(if p.fancy_ops { 12 } else { 6 });
            match c {
                0..=3 => {
                    ops.push(Op::Read(pick(r)));
                    nvals += 1;
                }
                4 | 5 if nvals > 0 => {
                    let on = r.usize_below(nvals);
                    let then = pick(r);
                    let els = if r.chance(1, 2) { Some(pick(r)) } else { None };
                    ops.push(Op::ReadIf { on, pred: gen_pred(r), then, els });
                }
                6 | 7 => {
                    let k = 2 + r.usize_below(3);
                    let mut ds: Vec<NodeId> = (0..k).map(|_| pick(r)).collect();
                    ds.sort();
                    ds.dedup();
                    nvals += ds.len();
                    if c == 6 { ops.push(Op::Unordered(ds)) } else { ops.push(Op::Join(ds)) }
                }
                8 => {
                    ops.push(Op::Spawn(pick(r)));
                    nvals += 1;
                }
                9 => ops.push(Op::Yield),
                _ => {
                    ops.push(Op::Read(pick(r)));
                    nvals += 1;
                }
            }
        }
        prog.nodes.insert(id, NodeSpec { ops, combine: gen_combine(r, i64::from(rank) + 1) });
        all.push(id);
        if kind != Kind::N {
            fp.push(id);
        }
    }
    prog
}

/// Hand-shaped families (chains of firewalls, projection fans, sandwiches,
/// wide fan-in / fan-out) that the random generator reaches rarely.
pub fn gen_family(r: &mut Rng, which: u64, scale: u32) -> Program {
    let mut prog = Program::default();
    let rd = |d: NodeId| Op::Read(d);
    match which % 7 {
        0 => {
            // In0 -> F0 -> N0 -> F1 -> N1 ... chain of firewalls with absorbing combines
            let mut prev = nid(Kind::In, 0);
            for i in 0..scale.max(2) {
                let f = nid(Kind::F, i);
                prog.nodes.insert(f, NodeSpec { ops: vec![rd(prev)], combine: if i % 2 == 0 { Combine::Bucket(2) } else { Combine::SumPlus(1) } });
                let n = nid(Kind::N, i);
                prog.nodes.insert(n, NodeSpec { ops: vec![rd(f), rd(nid(Kind::In, 1))], combine: Combine::Sum });
                prev = n;
            }
        }
        1 => {
            // projection fan over one firewall
            let f = nid(Kind::F, 0);
            prog.nodes.insert(f, NodeSpec { ops: vec![Op::Join((0..4).map(|i| nid(Kind::In, i)).collect())], combine: Combine::Sum });
            for i in 0..scale.max(2) {
                let p = nid(Kind::P, i);
                let c = match i % 4 { 0 => Combine::Parity, 1 => Combine::Bucket(3), 2 => Combine::Sign, _ => Combine::Clamp(0, 3) };
                prog.nodes.insert(p, NodeSpec { ops: vec![rd(f)], combine: c });
                prog.nodes.insert(nid(Kind::N, i), NodeSpec { ops: vec![rd(p), rd(nid(Kind::In, i % 4))], combine: Combine::Scale(10, i64::from(i)) });
            }
            let all: Vec<NodeId> = (0..scale.max(2)).map(|i| nid(Kind::N, i)).collect();
            // (the aggregator's index is above every consumer's, whatever the scale)
            prog.nodes.insert(nid(Kind::N, 1_000_000), NodeSpec { ops: vec![Op::Unordered(all)], combine: Combine::Sum });
        }
        2 => {
            // firewall -> projection -> firewall sandwich, twice
            prog.nodes.insert(nid(Kind::F, 0), NodeSpec { ops: vec![rd(nid(Kind::In, 0)), rd(nid(Kind::In, 1))], combine: Combine::Sum });
            prog.nodes.insert(nid(Kind::P, 0), NodeSpec { ops: vec![rd(nid(Kind::F, 0))], combine: Combine::Bucket(2) });
            prog.nodes.insert(nid(Kind::F, 1), NodeSpec { ops: vec![rd(nid(Kind::P, 0)), rd(nid(Kind::In, 2))], combine: Combine::Sum });
            prog.nodes.insert(nid(Kind::P, 1), NodeSpec { ops: vec![rd(nid(Kind::F, 1)), rd(nid(Kind::P, 0))], combine: Combine::Parity });
            prog.nodes.insert(nid(Kind::N, 0), NodeSpec { ops: vec![rd(nid(Kind::P, 1)), rd(nid(Kind::In, 3))], combine: Combine::Scale(7, 1) });
            prog.nodes.insert(nid(Kind::N, 1), NodeSpec { ops: vec![rd(nid(Kind::N, 0)), Op::ReadIf { on: 0, pred: Pred::Even, then: nid(Kind::F, 0), els: Some(nid(Kind::F, 1)) }], combine: Combine::Sum });
            prog.nodes.insert(nid(Kind::N, 2), NodeSpec { ops: vec![rd(nid(Kind::N, 1))], combine: Combine::SumPlus(1000) });
        }
        3 => {
            // wide fan-in: `scale` callers of one callee (behind a firewall or not)
            let callee = if r.chance(1, 2) { nid(Kind::F, 0) } else { nid(Kind::N, 9999) };
            prog.nodes.insert(callee, NodeSpec { ops: vec![rd(nid(Kind::In, 0))], combine: Combine::SumPlus(0) });
            for i in 0..scale {
                prog.nodes.insert(nid(Kind::N, i), NodeSpec { ops: vec![rd(callee)], combine: Combine::Scale(1000, i64::from(i)) });
            }
        }
        4 => {
            // wide fan-out: one node reading `scale` deps (unordered + ordered)
            for i in 0..scale {
                prog.nodes.insert(nid(Kind::N, i + 1), NodeSpec { ops: vec![rd(nid(Kind::In, i % 4))], combine: Combine::SumPlus(i64::from(i)) });
            }
            let deps: Vec<NodeId> = (0..scale).map(|i| nid(Kind::N, i + 1)).collect();
            prog.nodes.insert(nid(Kind::N, 0), NodeSpec { ops: vec![Op::Unordered(deps.clone())], combine: Combine::Sum });
            prog.nodes.insert(nid(Kind::F, 0), NodeSpec { ops: vec![Op::Join(deps)], combine: Combine::Bucket(5) });
            prog.nodes.insert(nid(Kind::N, 100_000), NodeSpec { ops: vec![rd(nid(Kind::F, 0)), rd(nid(Kind::N, 0))], combine: Combine::Sum });
        }
        6 => {
            // a chain of normal queries above a leaf that reaches a firewall only through a
            // conditional read, with absorbing combines: the leaf can switch onto (and off) the
            // firewall branch without changing its value, so the queries above it are *cleaned*,
            // not recomputed, and have to learn about the new firewall below them through the
            // transitive-firewall-callee bookkeeping alone
            prog.nodes.insert(nid(Kind::F, 0), NodeSpec { ops: vec![rd(nid(Kind::In, 1))], combine: Combine::SumPlus(r.range(0, 3)) });
            let leaf_combine = match r.below(3) { 0 => Combine::Clamp(0, 2), 1 => Combine::Bucket(3), _ => Combine::Parity };
            let pred = match r.below(3) { 0 => Pred::Gt(0), 1 => Pred::Even, _ => Pred::Zero };
            prog.nodes.insert(nid(Kind::N, 0), NodeSpec { ops: vec![rd(nid(Kind::In, 0)), Op::ReadIf { on: 0, pred, then: nid(Kind::F, 0), els: if r.chance(1, 2) { Some(nid(Kind::In, 2)) } else { None } }], combine: leaf_combine });
            for i in 1..=scale.max(2) {
                let c = if i % 2 == 0 { Combine::SumPlus(1) } else { Combine::Scale(10, i64::from(i)) };
                prog.nodes.insert(nid(Kind::N, i), NodeSpec { ops: vec![rd(nid(Kind::N, i - 1))], combine: c });
            }
        }
        _ => {
            // the "fresh reader above an absorbed firewall" family (P-1 shape):
            // In0 -> F0 -> M -> Nk ; R reads Nk, never queried at first
            prog.nodes.insert(nid(Kind::F, 0), NodeSpec { ops: vec![rd(nid(Kind::In, 0))], combine: Combine::SumPlus(10) });
            prog.nodes.insert(nid(Kind::N, 0), NodeSpec { ops: vec![rd(nid(Kind::F, 0))], combine: Combine::SumPlus(0) });
            for i in 1..=scale.max(1) {
                prog.nodes.insert(nid(Kind::N, i), NodeSpec { ops: vec![rd(nid(Kind::N, i - 1))], combine: Combine::SumPlus(0) });
            }
            prog.nodes.insert(nid(Kind::N, 500), NodeSpec { ops: vec![rd(nid(Kind::N, scale.max(1))), rd(nid(Kind::In, 1))], combine: Combine::Scale(1, 1000) });
            prog.nodes.insert(nid(Kind::N, 501), NodeSpec { ops: vec![rd(nid(Kind::In, 1)), Op::ReadIf { on: 0, pred: Pred::Even, then: nid(Kind::N, scale.max(1)), els: Some(nid(Kind::In, 2)) }], combine: Combine::Sum });
        }
    }
    prog
}

pub fn inputs_of(prog: &Program) -> (Vec<u32>, Vec<u32>) {
    let mut ins = std::collections::BTreeSet::new();
    let mut xs = std::collections::BTreeSet::new();
    for n in prog.nodes.keys() {
        for d in prog.static_deps(*n) {
            match d.kind {
                Kind::In => {
                    ins.insert(d.idx);
                }
                Kind::X => {
                    xs.insert(d.idx);
                }
                _ => {}
            }
        }
    }
    (ins.into_iter().collect(), xs.into_iter().collect())
}
