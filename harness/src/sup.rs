//! Supervisor / worker infrastructure.
//!
//! `qv run <check>` is a supervisor: it shards the workload over worker child
//! processes (`qv worker <check> ...`), reads what they stream on stdout,
//! classifies process deaths and hangs, attributes violations to known
//! findings, writes the evidence file and prints the verdict lines.

use std::{
    collections::{BTreeMap, BTreeSet, HashSet},
    io::{BufRead, BufReader, Write},
    process::{Command, Stdio},
    sync::{Arc, Mutex},
    time::{Duration, Instant},
};

use crate::util::{Json, proc_cpu_ticks};

#[derive(Clone, Copy, Debug, PartialEq, Eq)]
pub enum Tier {
    Quick,
    Thorough,
}

impl Tier {
    pub fn name(self) -> &'static str {
        match self {
            Self::Quick => "quick",
            Self::Thorough => "thorough",
        }
    }

    pub fn pick<T>(self, q: T, t: T) -> T {
        match self {
            Self::Quick => q,
            Self::Thorough => t,
        }
    }
}

/// What a worker process knows about its job.
#[derive(Clone, Debug)]
pub struct WorkerCtx {
    pub check: String,
    pub part: String,
    pub shard: usize,
    pub nshards: usize,
    pub seed: u64,
    pub tier: Tier,
    pub replay: Option<String>,
}

impl WorkerCtx {
    /// workload size for this tier, scaled down for sanitizer parts
    pub fn pick<T: Scalable>(&self, quick: T, thorough: T) -> T {
        let n = self.tier.pick(quick, thorough);
        match self.part.as_str() {
            "tsan" | "asan" => n.div_min1(8),
            "miri" => n.div_min1(2000),
            _ => n,
        }
    }
}

pub trait Scalable: Copy {
    fn div_min1(self, d: u32) -> Self;
}
macro_rules! scalable {
    ($($t:ty),*) => {$(impl Scalable for $t {
        fn div_min1(self, d: u32) -> Self { let x = self / (d as $t); if x < 1 { if self < 1 { self } else { 1 } } else { x } }
    })*};
}
scalable!(u8, u16, u32, u64, usize, i32, i64);

/// A violation witness produced by a worker.
#[derive(Clone, Debug)]
pub struct Violation {
    /// specific signature (classifier + failing input / call site / history)
    pub signature: String,
    /// human-readable one-liner
    pub what: String,
    /// full witness (program, history, config, seeds, observed vs expected)
    pub witness: Json,
}

/// What a worker reports at the end.
#[derive(Default, Debug)]
pub struct Report {
    pub counters: BTreeMap<String, u64>,
    pub distinct: HashSet<u64>,
    pub samples: Vec<Json>,
    pub inconclusive: Vec<String>,
    pub evaluations: u64,
}

impl Report {
    pub fn count(&mut self, k: &str, n: u64) {
        *self.counters.entry(k.to_string()).or_insert(0) += n;
    }

    pub fn max(&mut self, k: &str, n: u64) {
        let e = self.counters.entry(format!("max:{k}")).or_insert(0);
        *e = (*e).max(n);
    }

    pub fn sample(&mut self, j: Json) {
        if self.samples.len() < 3 {
            self.samples.push(j);
        }
    }

    pub fn merge(&mut self, o: Report) {
        for (k, v) in o.counters {
            if k.starts_with("max:") {
                let e = self.counters.entry(k).or_insert(0);
                *e = (*e).max(v);
            } else {
                *self.counters.entry(k).or_insert(0) += v;
            }
        }
        self.distinct.extend(o.distinct);
        for s in o.samples {
            self.sample(s);
        }
        self.inconclusive.extend(o.inconclusive);
        self.evaluations += o.evaluations;
    }
}

fn emit(line: &str) {
    let out = std::io::stdout();
    let mut l = out.lock();
    let _ = writeln!(l, "{line}");
    let _ = l.flush();
}

impl WorkerCtx {
    /// Announce the case about to run (so that a process death is attributable).
    pub fn announce(&self, case: &str) { emit(&format!("CASE {case}")); }

    pub fn violation(&self, v: &Violation) {
        let j = Json::obj()
            .set("signature", v.signature.as_str())
            .set("what", v.what.as_str())
            .set("witness", v.witness.clone());
        emit(&format!("VIOL {}", j.render()));
    }

    pub fn finish(&self, r: &Report) {
        let mut d: Vec<u64> = r.distinct.iter().copied().collect();
        d.sort_unstable();
        let j = Json::obj()
            .set("counters", r.counters.clone())
            .set(
                "distinct",
                Json::Arr(d.into_iter().map(|x| Json::Str(format!("{x:x}"))).collect()),
            )
            .set("samples", Json::Arr(r.samples.clone()))
            .set(
                "inconclusive",
                Json::Arr(r.inconclusive.iter().map(|s| Json::Str(s.clone())).collect()),
            )
            .set("evaluations", r.evaluations);
        emit(&format!("REPORT {}", j.render()));
    }
}

// ---------------------------------------------------------------------------
// panic recorder (worker side)

static PANICS: Mutex<Vec<String>> = Mutex::new(Vec::new());

/// Install a process-wide panic hook that records every panic message
/// (thread name + location + payload) and stays quiet on stderr unless
/// `QV_PANIC_STDERR=1`.
pub fn install_panic_recorder() {
    let loud = std::env::var("QV_PANIC_STDERR").is_ok();
    std::panic::set_hook(Box::new(move |info| {
        let payload = if let Some(s) = info.payload().downcast_ref::<&str>() {
            (*s).to_string()
        } else if let Some(s) = info.payload().downcast_ref::<String>() {
            s.clone()
        } else {
            "<non-string payload>".to_string()
        };
        let loc = info
            .location()
            .map(|l| format!("{}:{}", l.file(), l.line()))
            .unwrap_or_default();
        let th = std::thread::current().name().unwrap_or("?").to_string();
        let msg = format!("[{th}] {loc}: {payload}");
        if loud {
            eprintln!("PANIC {msg}");
            if std::env::var("QV_PANIC_BT").is_ok() && !payload.contains("injected executor panic") {
                let bt = std::backtrace::Backtrace::force_capture().to_string();
                for l in bt.lines().filter(|l| l.contains("qbice") || l.contains("/repo/")).take(60) {
                    eprintln!("   {l}");
                }
            }
        }
        // a panic on the main thread that nothing catches ends the worker with
        // status 101: say what it was, so that a worker death is never anonymous
        // (non-string payloads are the engine's own cycle unwinding, which it catches)
        if !loud && th == "main" && !payload.contains("injected executor panic") && payload != "<non-string payload>" {
            let before: Vec<String> = PANICS.lock().map(|p| p.iter().rev().take(3).cloned().collect()).unwrap_or_default();
            eprintln!("PANIC-ON-MAIN {msg} ;; panics recorded before it (latest first): {before:?}");
        }
        if let Ok(mut p) = PANICS.lock() {
            p.push(msg);
        }
    }));
}

pub fn panic_mark() -> usize { PANICS.lock().map(|p| p.len()).unwrap_or(0) }

pub fn panics_since(mark: usize) -> Vec<String> {
    PANICS.lock().map(|p| p[mark.min(p.len())..].to_vec()).unwrap_or_default()
}

// ---------------------------------------------------------------------------
// supervisor side

pub struct PartSpec {
    pub name: &'static str,
    pub nshards: usize,
    /// wall-clock budget per worker (seconds) before the watchdog looks at it
    pub budget_s: u64,
    /// extra environment for the worker processes
    pub env: Vec<(String, String)>,
    /// override program + args prefix (for sanitizer builds); None = current exe
    pub program: Option<Vec<String>>,
    /// command run once before the shards (builds the sanitizer binary); a
    /// failure makes the part inconclusive
    pub prepare: Option<Vec<String>>,
    /// "miri" | "tsan" | "asan": a worker death is classified by the sanitizer report
    pub sanitizer: Option<&'static str>,
}

const MIRIFLAGS: &str = "-Zmiri-tree-borrows -Zmiri-permissive-provenance -Zmiri-ignore-leaks -Zmiri-disable-isolation";

/// A part that runs the same worker code under a sanitizer build of the
/// harness + /repo (no RocksDB / Fjall in these builds: pure Rust only).
pub fn sanitizer_part(kind: &'static str, nshards: usize, budget_s: u64) -> PartSpec {
    // the harness crate this binary was built from: <harness>/target*/release/qv
    let h = std::env::var("QV_HARNESS").ok().unwrap_or_else(|| {
        std::env::current_exe()
            .ok()
            .and_then(|e| e.parent().and_then(|p| p.parent()).and_then(|p| p.parent()).map(|p| p.to_string_lossy().to_string()))
            .filter(|p| std::path::Path::new(&format!("{p}/Cargo.toml")).exists())
            .unwrap_or_else(|| format!("{}/harness", verif_root()))
    });
    let s = |v: &[&str]| v.iter().map(|x| x.to_string()).collect::<Vec<_>>();
    let man = format!("{h}/Cargo.toml");
    match kind {
        "miri" => {
            let td = format!("{h}/target-miri");
            let base = s(&["cargo", "+nightly", "miri", "run", "--offline", "-q", "--manifest-path", &man, "--no-default-features", "--target-dir", &td, "--bin", "qv", "--"]);
            let mut prep = base.clone();
            prep.push("noop".into());
            PartSpec {
                name: "miri",
                nshards,
                budget_s,
                env: vec![("MIRIFLAGS".into(), format!("{MIRIFLAGS} -Zmiri-seed={{shard}}")), ("CARGO_NET_OFFLINE".into(), "true".into())],
                program: Some(base),
                prepare: Some(prep),
                sanitizer: Some("miri"),
            }
        }
        "tsan" | "asan" => {
            let td = format!("{h}/target-{kind}");
            let mut prep = s(&["cargo", "+nightly", "build", "--offline", "-q", "--release", "--manifest-path", &man, "--no-default-features", "--target-dir", &td, "--target", "x86_64-unknown-linux-gnu", "--bin", "qv"]);
            let (flags, opts_k, opts_v) = if kind == "tsan" {
                prep.push("-Zbuild-std".into());
                ("-Zsanitizer=thread", "TSAN_OPTIONS", "halt_on_error=1:exitcode=66:second_deadlock_stack=1")
            } else {
                ("-Zsanitizer=address -Cforce-frame-pointers=yes", "ASAN_OPTIONS", "halt_on_error=1:abort_on_error=0:exitcode=67:detect_leaks=0")
            };
            PartSpec {
                name: if kind == "tsan" { "tsan" } else { "asan" },
                nshards,
                budget_s,
                env: vec![("RUSTFLAGS".into(), flags.into()), (opts_k.into(), opts_v.into()), ("CARGO_NET_OFFLINE".into(), "true".into())],
                program: Some(vec![format!("{td}/x86_64-unknown-linux-gnu/release/qv")]),
                prepare: Some(prep),
                sanitizer: Some(if kind == "tsan" { "tsan" } else { "asan" }),
            }
        }
        _ => unreachable!(),
    }
}

/// Classify the stderr of a dead sanitizer worker: (report kind, first frame in /repo/crates)
fn sanitizer_report(tail: &str) -> Option<(String, Option<String>)> {
    let kind = if tail.contains("Undefined Behavior") {
        "undefined-behavior"
    } else if tail.contains("Data race detected") || tail.contains("ThreadSanitizer: data race") {
        "data-race"
    } else if tail.contains("ThreadSanitizer") {
        "tsan-report"
    } else if tail.contains("AddressSanitizer") {
        "asan-report"
    } else if tail.contains("error: deadlock") || tail.contains("the evaluated program deadlocked") {
        "miri-deadlock"
    } else {
        return None;
    };
    // first source position under /repo/crates, line number kept, column stripped
    let mut frame = None;
    for l in tail.lines() {
        if let Some(i) = l.find("/repo/crates/") {
            let rest = &l[i..];
            let end = rest.find(|c: char| c.is_whitespace() || c == ')').unwrap_or(rest.len());
            let mut f = rest[..end].to_string();
            let parts: Vec<&str> = f.split(':').collect();
            if parts.len() >= 3 {
                f = format!("{}:{}", parts[0], parts[1]);
            }
            frame = Some(f);
            break;
        }
    }
    Some((kind.to_string(), frame))
}

pub struct WorkerOutcome {
    pub part: String,
    pub shard: usize,
    pub report: Option<Report>,
    pub violations: Vec<Violation>,
    pub last_case: Option<String>,
    pub death: Option<String>,
    pub hung: Option<&'static str>, // "deadlock" | "livelock" | "busy"
    pub stderr_tail: String,
}

fn parse_report(j: &Json) -> Report {
    let mut r = Report::default();
    if let Some(Json::Obj(c)) = j.get("counters") {
        for (k, v) in c {
            r.counters.insert(k.clone(), v.as_i().unwrap_or(0) as u64);
        }
    }
    if let Some(a) = j.get("distinct").and_then(Json::as_arr) {
        for d in a {
            if let Some(s) = d.as_str() {
                if let Ok(x) = u64::from_str_radix(s, 16) {
                    r.distinct.insert(x);
                }
            }
        }
    }
    if let Some(a) = j.get("samples").and_then(Json::as_arr) {
        r.samples = a.to_vec();
    }
    if let Some(a) = j.get("inconclusive").and_then(Json::as_arr) {
        r.inconclusive = a.iter().filter_map(|x| x.as_str().map(String::from)).collect();
    }
    r.evaluations = j.get("evaluations").and_then(Json::as_i).unwrap_or(0) as u64;
    r
}

/// Run all shards of one part concurrently (bounded by `max_par`).
pub fn run_part(
    check: &str,
    part: &PartSpec,
    seed: u64,
    tier: Tier,
    replay: Option<&str>,
    max_par: usize,
) -> Vec<WorkerOutcome> {
    let outcomes = Arc::new(Mutex::new(Vec::new()));
    let next = Arc::new(Mutex::new(0usize));
    let mut handles = Vec::new();
    let par = max_par.min(part.nshards).max(1);
    for _ in 0..par {
        let outcomes = outcomes.clone();
        let next = next.clone();
        let check = check.to_string();
        let pname = part.name.to_string();
        let nshards = part.nshards;
        let budget = part.budget_s;
        let env = part.env.clone();
        let program = part.program.clone();
        let replay = replay.map(String::from);
        handles.push(std::thread::spawn(move || {
            loop {
                let shard = {
                    let mut n = next.lock().unwrap();
                    if *n >= nshards {
                        break;
                    }
                    *n += 1;
                    *n - 1
                };
                let o = run_one(
                    &check, &pname, shard, nshards, seed, tier, replay.as_deref(), budget,
                    &env, program.as_deref(),
                );
                outcomes.lock().unwrap().push(o);
            }
        }));
    }
    for h in handles {
        let _ = h.join();
    }
    let mut v = std::mem::take(&mut *outcomes.lock().unwrap());
    v.sort_by_key(|o| o.shard);
    v
}

#[allow(clippy::too_many_arguments)]
fn run_one(
    check: &str,
    part: &str,
    shard: usize,
    nshards: usize,
    seed: u64,
    tier: Tier,
    replay: Option<&str>,
    budget_s: u64,
    env: &[(String, String)],
    program: Option<&[String]>,
) -> WorkerOutcome {
    let mut cmd = if let Some(p) = program {
        let mut c = Command::new(&p[0]);
        c.args(&p[1..]);
        c
    } else {
        Command::new(std::env::current_exe().expect("current exe"))
    };
    cmd.arg("worker")
        .arg(check)
        .arg(part)
        .arg(shard.to_string())
        .arg(nshards.to_string())
        .arg(seed.to_string())
        .arg(tier.name());
    if let Some(r) = replay {
        cmd.arg(r);
    }
    for (k, v) in env {
        cmd.env(k, v.replace("{shard}", &shard.to_string()));
    }
    cmd.stdin(Stdio::null()).stdout(Stdio::piped()).stderr(Stdio::piped());
    let mut child = match cmd.spawn() {
        Ok(c) => c,
        Err(e) => {
            return WorkerOutcome {
                part: part.into(),
                shard,
                report: None,
                violations: vec![],
                last_case: None,
                death: Some(format!("spawn failed: {e}")),
                hung: None,
                stderr_tail: String::new(),
            };
        }
    };
    let pid = child.id();
    let stdout = child.stdout.take().unwrap();
    let stderr = child.stderr.take().unwrap();

    struct Acc {
        report: Option<Report>,
        violations: Vec<Violation>,
        last_case: Option<String>,
        last_case_at: Instant,
        case_durations_ms: Vec<u64>,
    }
    let acc = Arc::new(Mutex::new(Acc { report: None, violations: vec![], last_case: None, last_case_at: Instant::now(), case_durations_ms: vec![] }));
    let acc2 = acc.clone();
    let t_out = std::thread::spawn(move || {
        let rd = BufReader::new(stdout);
        for line in rd.lines() {
            let Ok(line) = line else { break };
            if let Some(c) = line.strip_prefix("CASE ") {
                let mut a = acc2.lock().unwrap();
                if a.last_case.is_some() {
                    let d = a.last_case_at.elapsed().as_millis() as u64;
                    a.case_durations_ms.push(d);
                }
                a.last_case_at = Instant::now();
                a.last_case = Some(c.to_string());
            } else if let Some(v) = line.strip_prefix("VIOL ") {
                if let Ok(j) = Json::parse(v) {
                    acc2.lock().unwrap().violations.push(Violation {
                        signature: j
                            .get("signature")
                            .and_then(Json::as_str)
                            .unwrap_or("?")
                            .to_string(),
                        what: j.get("what").and_then(Json::as_str).unwrap_or("?").to_string(),
                        witness: j.get("witness").cloned().unwrap_or(Json::Null),
                    });
                }
            } else if let Some(r) = line.strip_prefix("REPORT ") {
                if let Ok(j) = Json::parse(r) {
                    acc2.lock().unwrap().report = Some(parse_report(&j));
                }
            }
        }
    });
    let errbuf = Arc::new(Mutex::new(Vec::<String>::new()));
    let errbuf2 = errbuf.clone();
    let t_err = std::thread::spawn(move || {
        let rd = BufReader::new(stderr);
        for line in rd.lines() {
            let Ok(line) = line else { break };
            let mut b = errbuf2.lock().unwrap();
            b.push(line);
            if b.len() > 400 {
                let n = b.len() - 200;
                b.drain(0..n);
            }
        }
    });

    let start = Instant::now();
    let mut hung = None;
    let status = loop {
        match child.try_wait() {
            Ok(Some(st)) => break Some(st),
            Ok(None) => {}
            Err(_) => break None,
        }
        if start.elapsed() > Duration::from_secs(budget_s) {
            // watchdog: quiescent (=> deadlock) or still busy (=> inconclusive)?
            let c0 = proc_tree_cpu(pid);
            let case0 = acc.lock().unwrap().last_case.clone();
            std::thread::sleep(Duration::from_secs(5));
            let c1 = proc_tree_cpu(pid);
            let case1 = acc.lock().unwrap().last_case.clone();
            if let Ok(Some(st)) = child.try_wait() {
                break Some(st);
            }
            if c1.saturating_sub(c0) <= 2 && case0 == case1 {
                hung = Some("deadlock");
                dump_stacks(pid, &errbuf);
            } else {
                // bounded progress: the case that is running has been running for at
                // least two minutes AND at least 2000 times longer than the median of
                // the (>= 20) cases this worker completed before it => it does not
                // terminate (busy loop). Anything less is "still busy" = inconclusive.
                let a = acc.lock().unwrap();
                let mut d = a.case_durations_ms.clone();
                d.sort_unstable();
                let cur = a.last_case_at.elapsed().as_millis() as u64;
                if d.len() >= 20 && case0 == case1 && cur >= 120_000 && cur >= 2000 * d[d.len() / 2].max(1) {
                    hung = Some("livelock");
                    drop(a);
                    dump_stacks(pid, &errbuf);
                } else {
                    hung = Some("busy");
                }
            }
            let _ = child.kill();
            break child.wait().ok();
        }
        std::thread::sleep(Duration::from_millis(50));
    };
    let _ = t_out.join();
    let _ = t_err.join();
    let mut a = acc.lock().unwrap();
    let death = match status {
        Some(st) if st.success() => None,
        Some(st) => {
            if hung.is_some() {
                None
            } else {
                Some(format!("worker exited abnormally: {st}"))
            }
        }
        None => Some("wait failed".to_string()),
    };
    let tail = {
        let b = errbuf.lock().unwrap();
        let n = b.len().saturating_sub(60);
        b[n..].join("\n")
    };
    WorkerOutcome {
        part: part.into(),
        shard,
        report: a.report.take(),
        violations: std::mem::take(&mut a.violations),
        last_case: a.last_case.clone(),
        death,
        hung,
        stderr_tail: tail,
    }
}

/// Where a hung worker sits, from the gdb backtraces: the innermost frame of a storage
/// back end (third party) if there is one, else the innermost frame in the repository.
fn hang_site(tail: &str) -> Option<String> {
    let func = |l: &str| -> Option<String> {
        // "#10 0x... in path::to::function<...> (args) at file:line"  or  "#10 path::to::function (...)"
        let l = l.trim_start_matches(|c: char| c == '#' || c.is_ascii_digit() || c == ' ');
        let l = l.strip_prefix("0x").map_or(l, |r| r.split_once(" in ").map_or(l, |x| x.1));
        let name = l.split(" (").next()?.split('<').next()?.trim();
        if name.is_empty() { None } else { Some(name.to_string()) }
    };
    let names: Vec<String> = tail.lines().filter(|l| l.starts_with('#')).filter_map(func).collect();
    for pat in ["fjall::", "lsm_tree::", "rocksdb::", "rust_rocksdb::", "librocksdb"] {
        if let Some(n) = names.iter().find(|n| n.starts_with(pat)) {
            return Some(n.clone());
        }
    }
    names.into_iter().find(|n| n.starts_with("qbice"))
}

fn proc_tree_cpu(pid: u32) -> u64 {
    // the worker plus its direct children (kill-child style workers)
    let mut t = proc_cpu_ticks(pid).unwrap_or(0);
    if let Ok(s) = std::fs::read_to_string(format!("/proc/{pid}/task/{pid}/children")) {
        for c in s.split_whitespace() {
            if let Ok(c) = c.parse::<u32>() {
                t += proc_cpu_ticks(c).unwrap_or(0);
            }
        }
    }
    t
}

fn dump_stacks(pid: u32, errbuf: &Arc<Mutex<Vec<String>>>) {
    let out = Command::new("gdb")
        .args(["-p", &pid.to_string(), "-batch", "-ex", "thread apply all bt 12"])
        .stdin(Stdio::null())
        .output();
    if let Ok(o) = out {
        let s = String::from_utf8_lossy(&o.stdout);
        let mut b = errbuf.lock().unwrap();
        b.push("---- gdb backtraces of quiescent worker ----".to_string());
        for l in s.lines().filter(|l| l.starts_with('#') || l.starts_with("Thread")).take(150) {
            b.push(l.to_string());
        }
    }
}

// ---------------------------------------------------------------------------
// known findings

#[derive(Clone, Debug)]
pub struct Finding {
    pub property: String,
    pub id: String,
    pub status: String, // "open" | "fixed: <commit>"
    pub signature: String,
    pub what: String,
}

pub fn load_findings(path: &str) -> Vec<Finding> {
    let Ok(s) = std::fs::read_to_string(path) else { return vec![] };
    let Ok(j) = Json::parse(&s) else {
        eprintln!("known_findings.json does not parse");
        return vec![];
    };
    let mut v = Vec::new();
    if let Some(a) = j.get("findings").and_then(Json::as_arr) {
        for f in a {
            let g = |k: &str| f.get(k).and_then(Json::as_str).unwrap_or("").to_string();
            v.push(Finding {
                property: g("property"),
                id: g("id"),
                status: g("status"),
                signature: g("signature"),
                what: g("what_fails"),
            });
        }
    }
    v
}

// ---------------------------------------------------------------------------
// the check driver

pub struct CheckMeta {
    pub id: &'static str,
    pub level: &'static str,
    pub rule: &'static str,
    pub assumptions: Vec<String>,
    pub parts: Vec<PartSpec>,
    /// counters that must be non-zero for the run to count (else inconclusive /
    /// broken); (counter, reason)
    pub must_be_nonzero: Vec<(&'static str, &'static str)>,
}

pub struct RunResult {
    pub exit: i32,
}

pub fn verif_root() -> String {
    std::env::var("QV_ROOT").unwrap_or_else(|_| "/verif".to_string())
}

#[allow(clippy::too_many_lines)]
pub fn run_check(meta: CheckMeta, seed: u64, tier: Tier, replay: Option<&str>) -> RunResult {
    let t0 = Instant::now();
    let root = verif_root();
    let findings: Vec<Finding> = load_findings(&format!("{root}/known_findings.json"))
        .into_iter()
        .filter(|f| f.property == meta.id)
        .collect();

    if replay.is_none() {
        if let Ok(rd) = std::fs::read_dir(format!("{root}/replays")) {
            let pre = format!("{}-{}-", meta.id, tier.name());
            for e in rd.flatten() {
                if e.file_name().to_string_lossy().starts_with(&pre) {
                    let _ = std::fs::remove_file(e.path());
                }
            }
        }
    }
    let max_par = std::thread::available_parallelism().map_or(8, |x| x.get());
    let mut total = Report::default();
    let mut all_viol: Vec<(String, Violation)> = Vec::new();
    let mut worker_notes: Vec<Json> = Vec::new();
    let mut part_notes: Vec<Json> = Vec::new();
    let mut broken = false;

    for part in &meta.parts {
        if part.sanitizer.is_some() && (replay.is_some() || std::env::var("QV_NO_SANITIZERS").is_ok()) {
            continue;
        }
        if let Some(prep) = &part.prepare {
            let tp = Instant::now();
            let mut c = Command::new(&prep[0]);
            c.args(&prep[1..]);
            for (k, v) in &part.env {
                c.env(k, v.replace("{shard}", "0"));
            }
            let out = c.stdin(Stdio::null()).output();
            let ok = matches!(&out, Ok(o) if o.status.success());
            if !ok {
                let tail = match out {
                    Ok(o) => {
                        let e = String::from_utf8_lossy(&o.stderr).to_string();
                        e.lines().rev().take(12).collect::<Vec<_>>().into_iter().rev().collect::<Vec<_>>().join(" | ")
                    }
                    Err(e) => e.to_string(),
                };
                total.inconclusive.push(format!("part {}: sanitizer build unavailable: {tail}", part.name));
                continue;
            }
            total.count(&format!("{}:build_s", part.name), tp.elapsed().as_secs());
        }
        let outs = run_part(meta.id, part, seed, tier, replay, max_par);
        let part_evals: u64 = outs.iter().filter_map(|o| o.report.as_ref().map(|r| r.evaluations)).sum();
        let part_done = outs.iter().filter(|o| o.report.is_some()).count();
        part_notes.push(
            Json::obj()
                .set("part", part.name)
                .set("sanitizer", part.sanitizer.unwrap_or("none"))
                .set("shards", part.nshards)
                .set("shards_completed", part_done)
                .set("evaluations", part_evals),
        );
        for o in outs {
            let wid = format!("{}#{}", o.part, o.shard);
            for v in o.violations {
                all_viol.push((wid.clone(), v));
            }
            if let Some(h) = o.hung {
                if h == "deadlock" || h == "livelock" {
                    let case = o.last_case.clone().unwrap_or_else(|| "?".into());
                    all_viol.push((
                        wid.clone(),
                        Violation {
                            signature: format!("{}/{h} part={}{}", meta.id, o.part, hang_site(&o.stderr_tail).map(|x| format!(" at {x}")).unwrap_or_default()),
                            what: if h == "deadlock" {
                                format!("worker quiescent (no CPU, no progress) with case outstanding: {case}")
                            } else {
                                format!("worker spinning without progress (one case running > 2 min and > 2000x the median case time): {case}")
                            },
                            witness: Json::obj()
                                .set("last_case", case)
                                .set("stderr_tail", o.stderr_tail.clone()),
                        },
                    ));
                } else {
                    total.inconclusive.push(format!(
                        "{wid}: still busy at wall budget ({}s); last case {:?}",
                        part.budget_s, o.last_case
                    ));
                }
            }
            if let Some(d) = o.death {
                // a worker that dies by signal / abort while running a case is
                // a result: classify as violation with the announced case.
                let case = o.last_case.clone().unwrap_or_else(|| "?".into());
                let oom = o.stderr_tail.contains("memory allocation")
                    || d.contains("signal: 9");
                if let Some(kind) = part.sanitizer {
                    match sanitizer_report(&o.stderr_tail) {
                        Some((what, Some(frame))) => all_viol.push((
                            wid.clone(),
                            Violation {
                                signature: format!("{}/{kind}:{what} at {frame}", meta.id),
                                what: format!("{kind} reported {what}, first frame in the repository: {frame}; case: {case}"),
                                witness: Json::obj().set("last_case", case).set("stderr_tail", o.stderr_tail.clone()),
                            },
                        )),
                        Some((what, None)) => {
                            total.count(&format!("{kind}:third_party_reports"), 1);
                            total.inconclusive.push(format!("{wid}: {kind} {what} with no frame in /repo/crates (third party); case {case}"));
                        }
                        None => total.inconclusive.push(format!(
                            "{wid}: {kind} worker ended abnormally without a sanitizer report ({d}); case {case}; tail: {}",
                            o.stderr_tail.lines().rev().take(4).collect::<Vec<_>>().join(" | ")
                        )),
                    }
                } else if oom {
                    total.inconclusive.push(format!("{wid}: killed/OOM ({d}) at case {case}"));
                } else if o.report.is_none() {
                    all_viol.push((
                        wid.clone(),
                        Violation {
                            signature: format!("{}/worker-death part={}", meta.id, o.part),
                            what: format!(
                                "{d}; last announced case: {case}; {}",
                                o.stderr_tail.lines().rev().find(|l| l.starts_with("PANIC-ON-MAIN")).unwrap_or("(no panic line)")
                            ),
                            witness: Json::obj()
                                .set("last_case", case)
                                .set("death", d)
                                .set("stderr_tail", o.stderr_tail.clone()),
                        },
                    ));
                }
            }
            match o.report {
                Some(r) => {
                    worker_notes.push(
                        Json::obj().set("worker", wid.as_str()).set("evaluations", r.evaluations),
                    );
                    total.merge(r);
                }
                None => {
                    if o.hung.is_none() {
                        worker_notes.push(
                            Json::obj()
                                .set("worker", wid.as_str())
                                .set("no_report", true)
                                .set("stderr_tail", o.stderr_tail.clone()),
                        );
                    }
                }
            }
        }
    }

    // classify violations against known findings
    let mut known_hit: BTreeMap<String, u64> = BTreeMap::new();
    let mut unknown: Vec<(String, Violation)> = Vec::new();
    for (w, v) in all_viol {
        if let Some(f) =
            findings.iter().find(|f| f.status == "open" && f.signature == v.signature)
        {
            *known_hit.entry(f.id.clone()).or_insert(0) += 1;
        } else {
            unknown.push((w, v));
        }
    }
    for f in findings.iter().filter(|f| f.status == "open") {
        if known_hit.contains_key(&f.id) {
            println!("KNOWN-FINDING: property={} {} [{}]", meta.id, f.what, f.id);
        }
    }

    // replay files for unknown violations (dedupe by signature, keep first 5)
    let mut seen_sig = BTreeSet::new();
    let mut exit = 0;
    for (i, (w, v)) in unknown.iter().enumerate() {
        if !seen_sig.insert(v.signature.clone()) || seen_sig.len() > 5 {
            continue;
        }
        let path = format!("{root}/replays/{}-{}-{}-{i}.json", meta.id, tier.name(), seed);
        let j = Json::obj()
            .set("property", meta.id)
            .set("worker", w.as_str())
            .set("seed", seed)
            .set("tier", tier.name())
            .set("signature", v.signature.as_str())
            .set("what", v.what.as_str())
            .set("witness", v.witness.clone());
        let _ = std::fs::create_dir_all(format!("{root}/replays"));
        let _ = std::fs::write(&path, j.render());
        println!("VIOLATION property={} replay={path}", meta.id);
        println!("  signature: {}", v.signature);
        println!("  what: {}", v.what);
        exit = 1;
    }

    // sanity: something must have been observed
    for (k, why) in &meta.must_be_nonzero {
        if total.counters.get(*k).copied().unwrap_or(0) == 0 {
            total.inconclusive.push(format!("counter `{k}` is zero: {why}"));
        }
    }
    if total.evaluations == 0 && exit == 0 && replay.is_none() {
        eprintln!("BROKEN CHECK {}: nothing was observed", meta.id);
        broken = true;
    }

    let distinct = total.distinct.len() as u64;
    let mut cov = Json::obj()
        .set("evaluations", total.evaluations)
        .set("distinct_nontrivial", distinct)
        .set("rule", meta.rule)
        .set("samples", Json::Arr(total.samples.clone()))
        // true only when every worker enumerated the finite space of the check completely
        .set("exhaustive", total.counters.get("whole_space_enumerated").copied().unwrap_or(0) > 0 && total.inconclusive.is_empty())
        .set("counters", total.counters.clone())
        .set(
            "inconclusive",
            Json::Arr(total.inconclusive.iter().map(|s| Json::Str(s.clone())).collect()),
        )
        .set(
            "known_findings_hit",
            Json::Obj(known_hit.iter().map(|(k, v)| (k.clone(), Json::Int(*v as i128))).collect()),
        )
        .set("parts", Json::Arr(part_notes))
        .set("workers", Json::Arr(worker_notes));
    if let Some(ex) = total.counters.get("exhaustive_parts") {
        cov.put("exhaustive_parts", *ex);
    }
    let ev = Json::obj()
        .set("property_id", meta.id)
        .set("tier", tier.name())
        .set("seed", seed)
        .set("level", meta.level)
        .set("coverage", cov)
        .set(
            "assumptions",
            Json::Arr(meta.assumptions.iter().map(|s| Json::Str(s.clone())).collect()),
        )
        .set("wall_s", t0.elapsed().as_secs_f64())
        .set("violations", unknown.len());
    if replay.is_none() {
        let _ = std::fs::create_dir_all(format!("{root}/evidence"));
        let _ = std::fs::write(format!("{root}/evidence/{}.json", meta.id), ev.render());
    }
    println!(
        "{} {}: evaluations={} distinct_nontrivial={} violations={} known={} inconclusive={} wall={:.1}s",
        meta.id,
        tier.name(),
        total.evaluations,
        distinct,
        unknown.len(),
        known_hit.values().sum::<u64>(),
        total.inconclusive.len(),
        t0.elapsed().as_secs_f64()
    );
    for i in &total.inconclusive {
        println!("  inconclusive: {i}");
    }
    if broken {
        exit = 2;
    }
    RunResult { exit }
}
