//! Engine plumbing: storage back ends as types, engine open / shutdown,
//! histories, the sequential driver and the C01 / C03 oracles.

use std::{
    collections::{BTreeMap, BTreeSet, HashMap, HashSet},
    sync::{Arc, atomic::Ordering},
    time::Duration,
};

use fxhash::FxBuildHasher;
use qbice::{
    Config, Engine, Identifiable, SetInputResult, TrackedEngine,
    engine::{EngineOptions, YieldFrequency},
    serialize::Plugin,
    stable_hash::{SeededStableHasherBuilder, Sip128Hasher},
    storage::storage_engine::{
        StorageEngineFactory,
        db_backed::{Configuration, DbBacked, DbBackedFactory},
        in_memory::{InMemoryStorageEngine, InMemoryStorageEngineFactory},
    },
};

use crate::{
    model::{
        Eval, ExecCtx, ExecF, ExecN, ExecP, ExecRecord, ExecResult, ExecX, F, In, Kind, N, NodeId,
        P, Program, Reference, X,
    },
    reckv::{Grouping, RecKv, RecKvFactory, Shared},
    sup::Violation,
    util::{Json, Rng},
};

macro_rules! cfg_type {
    ($n:ident, $se:ty) => {
        #[derive(Debug, Clone, Copy, PartialEq, Eq, PartialOrd, Ord, Hash, Default, Identifiable)]
        pub struct $n;
        impl Config for $n {
            type StorageEngine = $se;
            type BuildStableHasher = SeededStableHasherBuilder<Sip128Hasher>;
            type BuildHasher = FxBuildHasher;
        }
    };
}
cfg_type!(MemCfg, InMemoryStorageEngine);
cfg_type!(RecCfg, DbBacked<RecKv>);
#[cfg(feature = "rocksdb")]
cfg_type!(RocksCfg, DbBacked<qbice::storage::kv_database::rocksdb::RocksDB>);
#[cfg(feature = "fjall")]
cfg_type!(FjallCfg, DbBacked<qbice::storage::kv_database::fjall::Fjall>);

/// A storage back end as a type + a way to make a factory for (re)opening it.
pub trait Backend: Send + Sync + 'static {
    type C: Config<BuildStableHasher = SeededStableHasherBuilder<Sip128Hasher>>;
    type Factory: StorageEngineFactory<StorageEngine = <Self::C as Config>::StorageEngine>;
    fn factory(&self) -> Self::Factory;
    fn describe(&self) -> String;
}

#[derive(Clone, Debug, Default)]
pub struct MemBackend;
impl Backend for MemBackend {
    type C = MemCfg;
    type Factory = InMemoryStorageEngineFactory;
    fn factory(&self) -> Self::Factory { InMemoryStorageEngineFactory }
    fn describe(&self) -> String { "InMemory".into() }
}

#[derive(Clone)]
pub struct RecBackend {
    pub shared: Arc<Shared>,
    pub cap: u64,
    pub workers: usize,
}
impl RecBackend {
    pub fn new(cap: u64, workers: usize, grouping: Grouping, seed: u64) -> Self {
        Self { shared: Shared::new(grouping, seed), cap, workers }
    }
}
impl Backend for RecBackend {
    type C = RecCfg;
    type Factory = DbBackedFactory<RecKvFactory>;
    fn factory(&self) -> Self::Factory {
        DbBackedFactory::builder()
            .configuration(
                Configuration::builder()
                    .cache_capacity(self.cap)
                    .serialization_workers(self.workers)
                    .build(),
            )
            .db_factory(RecKvFactory(self.shared.clone()))
            .build()
    }
    fn describe(&self) -> String {
        format!("DbBacked<RecKv>(cap={},workers={},grouping={:?})", self.cap, self.workers, *self.shared.grouping.lock())
    }
}

#[cfg(feature = "rocksdb")]
#[derive(Clone)]
pub struct RocksBackend {
    pub dir: std::path::PathBuf,
    pub cap: u64,
}
#[cfg(feature = "rocksdb")]
impl Backend for RocksBackend {
    type C = RocksCfg;
    type Factory = DbBackedFactory<qbice::storage::kv_database::rocksdb::RocksDBFactory<std::path::PathBuf>>;
    fn factory(&self) -> Self::Factory {
        DbBackedFactory::builder()
            .configuration(Configuration::builder().cache_capacity(self.cap).build())
            .db_factory(qbice::storage::kv_database::rocksdb::RocksDB::factory(self.dir.clone()))
            .build()
    }
    fn describe(&self) -> String { format!("DbBacked<RocksDB>(cap={})", self.cap) }
}

#[cfg(feature = "fjall")]
#[derive(Clone)]
pub struct FjallBackend {
    pub dir: std::path::PathBuf,
    pub cap: u64,
}
#[cfg(feature = "fjall")]
impl Backend for FjallBackend {
    type C = FjallCfg;
    type Factory = DbBackedFactory<qbice::storage::kv_database::fjall::FjallFactory<std::path::PathBuf>>;
    fn factory(&self) -> Self::Factory {
        DbBackedFactory::builder()
            .configuration(Configuration::builder().cache_capacity(self.cap).build())
            .db_factory(qbice::storage::kv_database::fjall::Fjall::factory(self.dir.clone()))
            .build()
    }
    fn describe(&self) -> String { format!("DbBacked<Fjall>(cap={})", self.cap) }
}

pub const HASH_SEED: u64 = 0;

pub async fn open_engine<B: Backend>(
    b: &B,
    ctx: &Arc<ExecCtx>,
    yield_freq: YieldFrequency,
) -> Result<Arc<Engine<B::C>>, String> {
    let r = Engine::<B::C>::new_with_options()
        .serialization_plugin(Plugin::default())
        .storage_engine_factory(b.factory())
        .stable_hasher(SeededStableHasherBuilder::<Sip128Hasher>::new(HASH_SEED))
        .options(EngineOptions::builder().yield_frequency(yield_freq).build())
        .build()
        .await;
    let mut e = match r {
        Ok(e) => e,
        Err(_) => return Err("engine open failed".into()),
    };
    e.register_executor::<N, _>(Arc::new(ExecN(ctx.clone())));
    e.register_executor::<F, _>(Arc::new(ExecF(ctx.clone())));
    e.register_executor::<P, _>(Arc::new(ExecP(ctx.clone())));
    e.register_executor::<X, _>(Arc::new(ExecX(ctx.clone())));
    Ok(Arc::new(e))
}

/// Drop the engine (must run inside the runtime): waits until every other
/// holder (spawned guards, dropped sessions) has let go, then drops it, which
/// drains the write-behind pipeline. Returns false if holders never let go.
pub async fn shutdown<C: Config>(mut engine: Arc<Engine<C>>) -> bool {
    for i in 0..4000 {
        match Arc::try_unwrap(engine) {
            Ok(e) => {
                // Database::drop blocks on spawn_blocking'ed drops; run it on a
                // blocking thread so a current_thread runtime is not wedged.
                let h = tokio::task::spawn_blocking(move || drop(e));
                let _ = h.await;
                return true;
            }
            Err(a) => {
                engine = a;
                if i < 50 {
                    tokio::task::yield_now().await;
                } else {
                    tokio::time::sleep(Duration::from_millis(1)).await;
                }
            }
        }
    }
    false
}

/// `nodes` in dependency order (callees first; DFS post-order, back edges of
/// cyclic programs ignored).
pub fn topo_order(prog: &Program, nodes: &[NodeId]) -> Vec<NodeId> {
    fn go(prog: &Program, n: NodeId, seen: &mut HashSet<NodeId>, out: &mut Vec<NodeId>) {
        if !seen.insert(n) {
            return;
        }
        for d in prog.static_deps(n) {
            if d.kind != Kind::In && d.kind != Kind::X {
                go(prog, d, seen, out);
            }
        }
        out.push(n);
    }
    let mut seen = HashSet::new();
    let mut out = Vec::new();
    let mut sorted = nodes.to_vec();
    sorted.sort();
    for n in sorted {
        go(prog, n, &mut seen, &mut out);
    }
    out.retain(|n| nodes.contains(n));
    out
}

/// User-level repair of the transitive firewall callees of `nodes` (masks the
/// known finding C01-F1 in checks whose subject is something else).
pub async fn prerepair_tfc<C: Config>(t: &TrackedEngine<C>, nodes: &[NodeId]) {
    for n in nodes {
        match n.kind {
            Kind::N => t.repair_transitive_firewall_callees(&N(n.idx)).await,
            Kind::F => t.repair_transitive_firewall_callees(&F(n.idx)).await,
            Kind::P => t.repair_transitive_firewall_callees(&P(n.idx)).await,
            _ => {}
        }
    }
}

pub async fn query_node<C: Config>(t: &TrackedEngine<C>, n: NodeId) -> i64 {
    match n.kind {
        Kind::In => t.query(&In(n.idx)).await,
        Kind::N => t.query(&N(n.idx)).await,
        Kind::F => t.query(&F(n.idx)).await,
        Kind::P => t.query(&P(n.idx)).await,
        Kind::X => t.query(&X(n.idx)).await,
    }
}

// ---------------------------------------------------------------------------
// histories

#[derive(Clone, Debug, PartialEq, Eq)]
pub enum Upd {
    Add(i64),
    Neg,
    Same,
    SetIfNone(i64),
}

impl Upd {
    pub fn apply(&self, cur: Option<i64>) -> i64 {
        match self {
            Self::Add(k) => cur.unwrap_or(0).wrapping_add(*k),
            Self::Neg => -cur.unwrap_or(0),
            Self::Same => cur.unwrap_or(0),
            Self::SetIfNone(k) => cur.unwrap_or(*k),
        }
    }
}

#[derive(Clone, Debug, PartialEq, Eq)]
pub enum Write {
    Set(u32, i64),
    Update(u32, Upd),
    Refresh,
}

#[derive(Clone, Copy, Debug, PartialEq, Eq)]
pub enum QMode {
    Seq,
    /// all roots on one task with join_all
    Join,
    /// roots spread over `n` spawned tasks, each with its own tracked engine
    Par(usize),
}

#[derive(Clone, Debug, PartialEq, Eq)]
pub enum Step {
    Session { cells: Vec<(u32, i64)>, writes: Vec<Write>, commit: bool },
    Query { roots: Vec<NodeId>, mode: QMode },
    Restart,
}

pub fn history_json(h: &[Step]) -> Json {
    Json::Arr(h.iter().map(|s| Json::Str(format!("{s:?}"))).collect())
}

#[derive(Clone, Debug)]
pub struct HistParams {
    pub steps: usize,
    pub restarts: bool,
    pub par: bool,
    pub late_inputs: bool,
}

/// Transitive static dependency closure (inputs included).
pub fn closure(prog: &Program, roots: &[NodeId]) -> HashSet<NodeId> {
    let mut seen = HashSet::new();
    let mut stack: Vec<NodeId> = roots.to_vec();
    while let Some(n) = stack.pop() {
        if seen.insert(n) {
            stack.extend(prog.static_deps(n));
        }
    }
    seen
}

pub fn gen_history(r: &mut Rng, prog: &Program, hp: &HistParams) -> Vec<Step> {
    let (ins, xs) = crate::model::inputs_of(prog);
    let mut ins = ins;
    if ins.is_empty() {
        ins.push(0);
    }
    let execs: Vec<NodeId> = prog.nodes.keys().copied().collect();
    let mut set: HashSet<u32> = HashSet::new();
    let mut h = Vec::new();
    // first session: set (almost) all inputs
    let late: HashSet<u32> = if hp.late_inputs && ins.len() > 2 && r.chance(1, 2) {
        let k = *r.pick(&ins);
        [k].into_iter().collect()
    } else {
        HashSet::new()
    };
    let val = |r: &mut Rng| r.range(-2, 5);
    let mut w = Vec::new();
    for i in &ins {
        if !late.contains(i) {
            w.push(Write::Set(*i, val(r)));
            set.insert(*i);
        }
    }
    let cells0: Vec<(u32, i64)> = xs.iter().map(|x| (*x, val(r))).collect();
    h.push(Step::Session { cells: cells0, writes: w, commit: true });

    let queryable = |set: &HashSet<u32>, n: NodeId| -> bool {
        closure(prog, &[n]).iter().all(|d| d.kind != Kind::In || set.contains(&d.idx))
    };
    for _ in 0..hp.steps {
        let c = r.below(100);
        if c < 45 {
            // query step
            let cands: Vec<NodeId> = execs.iter().copied().filter(|n| queryable(&set, *n)).collect();
            if cands.is_empty() {
                continue;
            }
            let k = 1 + r.usize_below(3.min(cands.len()));
            let mut roots: Vec<NodeId> = (0..k).map(|_| *r.pick(&cands)).collect();
            if r.chance(1, 6) {
                // also query an input directly
                if let Some(i) = set.iter().next() {
                    roots.push(NodeId { kind: Kind::In, idx: *i });
                }
            }
            if r.chance(1, 5) {
                roots.push(roots[0]); // repeated query
            }
            let mode = if hp.par && r.chance(1, 3) {
                QMode::Par(2 + r.usize_below(3))
            } else if r.chance(1, 4) {
                QMode::Join
            } else {
                QMode::Seq
            };
            h.push(Step::Query { roots, mode });
        } else if c < 90 {
            let mut writes = Vec::new();
            let mut cells = Vec::new();
            let mut pending: HashSet<u32> = HashSet::new();
            let n = r.usize_below(3);
            for _ in 0..=n {
                let i = *r.pick(&ins);
                match r.below(10) {
                    0..=4 => {
                        writes.push(Write::Set(i, val(r)));
                        pending.insert(i);
                    }
                    5 if set.contains(&i) || pending.contains(&i) => writes.push(Write::Update(i, Upd::Same)),
                    6 if set.contains(&i) || pending.contains(&i) => writes.push(Write::Update(i, Upd::Add(r.range(-1, 1)))),
                    7 if set.contains(&i) || pending.contains(&i) => writes.push(Write::Update(i, Upd::Neg)),
                    8 => {
                        writes.push(Write::Update(i, Upd::SetIfNone(val(r))));
                        pending.insert(i);
                    }
                    _ => {
                        // A -> B -> A inside one session
                        if set.contains(&i) || pending.contains(&i) {
                            writes.push(Write::Update(i, Upd::Add(1)));
                            writes.push(Write::Update(i, Upd::Add(-1)));
                        }
                    }
                }
            }
            if !xs.is_empty() && r.chance(1, 3) {
                let x = *r.pick(&xs);
                cells.push((x, val(r)));
                if r.chance(2, 3) {
                    writes.push(Write::Refresh);
                }
            }
            if r.chance(1, 8) {
                writes.clear(); // empty session
            }
            // (re)compute which inputs are set after this session
            for w in &writes {
                if let Write::Set(i, _) | Write::Update(i, Upd::SetIfNone(_)) = w {
                    set.insert(*i);
                }
            }
            h.push(Step::Session { cells, writes, commit: r.chance(3, 4) });
        } else if hp.restarts {
            h.push(Step::Restart);
        }
    }
    // always finish with a full query of everything queryable
    let roots: Vec<NodeId> = execs.iter().copied().filter(|n| queryable(&set, *n)).collect();
    if !roots.is_empty() {
        h.push(Step::Query { roots, mode: QMode::Seq });
    }
    h
}

// ---------------------------------------------------------------------------
// oracles

#[derive(Default)]
pub struct Stats {
    pub query_returns: u64,
    pub exec_records: u64,
    pub exec_reads: u64,
    pub reexecutions: u64,
    pub cutoffs: u64,
    pub set_results: u64,
    pub sessions: u64,
    pub restarts: u64,
    pub x_refreshes: u64,
    pub x_captures_adopted_from_engine: u64,
    pub unchanged_sessions: u64,
    pub dropped_executions: u64,
    /// query returns right after a restart for which no executor ran at all
    pub served_from_store_after_restart: u64,
}

/// Oracle state carried along one history.
pub struct Oracle {
    pub prog: Arc<Program>,
    pub refr: Reference,
    pub cells: HashMap<u32, i64>,
    pub epoch: u64,
    /// last *completed* run of each node: (epoch, reads)
    pub last_run: HashMap<NodeId, (u64, Vec<(NodeId, i64)>)>,
    pub ran_in_epoch: HashSet<NodeId>,
    /// whether the session that opened the current epoch refreshed X
    pub refresh_in_epoch: bool,
    pub c01_violated: bool,
    pub violations: Vec<(String, String, Json)>, // (property, signature-kind, detail)
    pub stats: Stats,
    /// nodes re-executed in the current epoch (for the cut-off statistic)
    reexec_now: HashSet<NodeId>,
    /// every completed execution's result: node -> [(epoch, value)]
    pub value_history: HashMap<NodeId, Vec<(u64, i64)>>,
    /// firewalls / projections whose backward projection is armed (model of the engine's pending mark)
    pub bp_armed: HashSet<NodeId>,
    /// index of the history step being executed / of the first C01 flag
    pub cur_step: usize,
    pub first_c01_step: Option<usize>,
    /// epoch in which a query was last verified by the engine (it was in the static closure
    /// of the roots of a user request), as of the end of the previous query step
    pub verified_epoch: HashMap<NodeId, u64>,
    /// epoch in which a query was last (re-)executed with a set of dependencies that differs
    /// from the one of its previous execution
    pub deps_changed_epoch: HashMap<NodeId, u64>,
    /// the two maps above as they were when the first C01 violation was flagged
    pub at_first_c01: Option<(HashMap<NodeId, u64>, HashMap<NodeId, u64>)>,
    /// firewalls strictly below each query (static closure), computed on demand
    fw_below: HashMap<NodeId, Vec<NodeId>>,
    /// epochs in which the *precondition* of finding C01-F1 was observed: an executor read a
    /// query (not itself that firewall) above a firewall whose from-scratch value differed from
    /// the value of its last execution and which had not been re-executed before the reader
    /// started. Whether the read returned a wrong value is a different matter (it may be right
    /// by coincidence): this is what a *latent* occurrence of the finding looks like.
    pub f1_precondition_epochs: std::collections::BTreeSet<u64>,
}

impl Oracle {
    pub fn new(prog: Arc<Program>) -> Self {
        Self {
            prog,
            refr: Reference::default(),
            cells: HashMap::new(),
            epoch: 0,
            last_run: HashMap::new(),
            ran_in_epoch: HashSet::new(),
            refresh_in_epoch: false,
            c01_violated: false,
            violations: vec![],
            stats: Stats::default(),
            reexec_now: HashSet::new(),
            value_history: HashMap::new(),
            bp_armed: HashSet::new(),
            cur_step: 0,
            first_c01_step: None,
            verified_epoch: HashMap::new(),
            deps_changed_epoch: HashMap::new(),
            at_first_c01: None,
            fw_below: HashMap::new(),
            f1_precondition_epochs: std::collections::BTreeSet::new(),
        }
    }

    pub fn flag(&mut self, prop: &str, kind: &str, detail: Json) {
        if prop == "C01" {
            self.c01_violated = true;
            if self.first_c01_step.is_none() {
                self.first_c01_step = Some(self.cur_step);
                self.at_first_c01 = Some((self.verified_epoch.clone(), self.deps_changed_epoch.clone()));
            }
        }
        if self.violations.len() < 8 {
            self.violations.push((prop.to_string(), kind.to_string(), detail));
        }
    }

    /// Expected from-scratch values for `nodes` under the current inputs
    /// (captures external cells like a real demand would).
    pub fn expect(&mut self, nodes: &[NodeId]) -> (HashMap<NodeId, i64>, HashMap<NodeId, Vec<(NodeId, i64)>>) {
        let prog = self.prog.clone();
        let mut ev = Eval::new(&prog, &self.refr.inputs, &mut self.refr.xcap, &self.cells, true);
        for n in nodes {
            ev.eval(*n);
        }
        assert!(ev.unset.is_empty(), "history queries a node over unset inputs {:?}", ev.unset);
        (ev.memo, ev.reads)
    }

    pub fn peek(&mut self, nodes: &[NodeId]) -> HashMap<NodeId, i64> {
        let prog = self.prog.clone();
        let mut ev = Eval::new(&prog, &self.refr.inputs, &mut self.refr.xcap, &self.cells, false);
        for n in nodes {
            ev.eval(*n);
        }
        ev.memo
    }

    /// Begin a new epoch: a session was opened.
    pub fn begin_session(&mut self) {
        self.epoch += 1;
        self.ran_in_epoch.clear();
        self.reexec_now.clear();
        self.refresh_in_epoch = false;
        self.stats.sessions += 1;
    }

    /// See `f1_precondition_epochs`.
    fn note_f1_precondition(&mut self, recs: &[ExecRecord]) {
        if self.f1_precondition_epochs.contains(&self.epoch) {
            return;
        }
        let prog = self.prog.clone();
        let mut cands: Vec<(u64, NodeId)> = Vec::new(); // (reader's seq_enter, firewall)
        for r in recs {
            for (d, _) in &r.reads {
                if !matches!(d.kind, Kind::N | Kind::F | Kind::P) {
                    continue;
                }
                let fws = self.fw_below.entry(*d).or_insert_with(|| closure(&prog, &[*d]).into_iter().filter(|f| f.kind == Kind::F && f != d).collect());
                for f in fws.iter() {
                    cands.push((r.seq_enter, *f));
                }
            }
        }
        if cands.is_empty() {
            return;
        }
        let mut fws: Vec<NodeId> = cands.iter().map(|c| c.1).collect();
        fws.sort();
        fws.dedup();
        let now = self.peek(&fws);
        for (enter, f) in cands {
            let Some(last) = self.value_history.get(&f).and_then(|h| h.last().map(|e| e.1)) else { continue };
            if now.get(&f).is_some_and(|v| *v != last) {
                // not repaired before the reader started?
                let repaired_before = recs.iter().any(|x| x.node == f && x.seq_exit < enter && matches!(&x.result, ExecResult::Value(v) if Some(v) == now.get(&f)));
                if !repaired_before {
                    self.f1_precondition_epochs.insert(self.epoch);
                    return;
                }
            }
        }
    }

    /// Judge the executor invocations recorded since the last call.
    /// `in_session`: records were produced while a session was open (refresh).
    pub fn judge(&mut self, recs: &[ExecRecord], in_session: bool, allow_dropped: bool) {
        // arm backward projection (see the C03-F1 classifier below): every
        // re-execution of a firewall / projection in this batch whose value
        // differs from its previous execution
        {
            let mut last: HashMap<NodeId, i64> = HashMap::new();
            for x in recs {
                if matches!(x.node.kind, Kind::F | Kind::P) {
                    if let ExecResult::Value(v) = &x.result {
                        let prev = last.get(&x.node).copied().or_else(|| self.value_history.get(&x.node).and_then(|h| h.last().map(|e| e.1)));
                        if prev.is_some_and(|p| p != *v) {
                            self.bp_armed.insert(x.node);
                        }
                        last.insert(x.node, *v);
                    }
                }
            }
        }
        if !in_session {
            self.note_f1_precondition(recs);
        }
        let mut drained: HashSet<NodeId> = HashSet::new();
        // reference values for everything mentioned
        let mut mention: Vec<NodeId> = Vec::new();
        for r in recs {
            mention.push(r.node);
            mention.extend(r.reads.iter().map(|x| x.0));
            if let Some((_, prev)) = self.last_run.get(&r.node) {
                mention.extend(prev.iter().map(|x| x.0));
            }
        }
        mention.retain(|n| n.kind != Kind::In || self.refr.inputs.contains_key(&n.idx));
        // An external-input executor captures its cell when the *engine* first runs it - which
        // can be inside a partial execution the engine aborts itself (sibling repairs of an
        // unordered group) and that the reference never demands. The capture is adopted from the
        // engine's own record (the from-scratch semantics does not say *when* an external input
        // is first read; that it is not re-run without a refresh is C03's rule, judged below).
        for r in recs {
            if r.node.kind == Kind::X {
                if let ExecResult::Value(v) = &r.result {
                    if !self.refr.xcap.contains_key(&r.node.idx) {
                        self.refr.xcap.insert(r.node.idx, *v);
                        self.stats.x_captures_adopted_from_engine += 1;
                    }
                }
            }
        }
        let now = self.peek(&mention);
        for r in recs {
            self.stats.exec_records += 1;
            self.stats.exec_reads += r.reads.len() as u64;
            // ---- C01: values handed to the executor, value it produced
            for (d, v) in &r.reads {
                if let Some(e) = now.get(d) {
                    if e != v {
                        self.flag("C01", "executor-read-stale", Json::obj()
                            .set("reader", format!("{:?}", r.node)).set("dep", format!("{d:?}"))
                            .set("got", *v).set("expected", *e).set("epoch", self.epoch));
                    }
                }
            }
            match &r.result {
                ExecResult::Value(v) => {
                    if r.node.kind != Kind::X {
                        if let Some(e) = now.get(&r.node) {
                            if e != v && !self.c01_violated {
                                self.flag("C01", "executor-result-differs", Json::obj()
                                    .set("node", format!("{:?}", r.node)).set("got", *v).set("expected", *e));
                            }
                        }
                    }
                }
                ExecResult::Dropped => {
                    // the engine itself aborts sibling repairs of an unordered
                    // group once one of them decided "recompute": a partial
                    // run that is dropped is not a completed execution.
                    self.stats.dropped_executions += 1;
                    continue;
                }
                ExecResult::Panicked => {
                    if !allow_dropped {
                        self.flag("C05", "executor-panicked-unexpectedly", Json::obj()
                            .set("node", format!("{:?}", r.node)));
                    }
                    continue;
                }
            }
            // ---- C03 (only while C01 has been silent on this history)
            if !self.c01_violated {
                let prev = self.last_run.get(&r.node).cloned();
                if r.node.kind == Kind::X {
                    let first = prev.is_none();
                    let ok = first || (in_session && self.refresh_in_epoch);
                    if !ok {
                        self.flag("C03", "external-input-rerun-without-refresh", Json::obj()
                            .set("node", format!("{:?}", r.node)).set("epoch", self.epoch));
                    }
                } else {
                    if self.ran_in_epoch.contains(&r.node) {
                        self.flag("C03", "executed-twice-in-one-epoch", Json::obj()
                            .set("node", format!("{:?}", r.node)).set("epoch", self.epoch));
                    }
                    if let Some((pe, preads)) = &prev {
                        let changed = preads.iter().any(|(d, v)| now.get(d).is_none_or(|e| e != v));
                        // known finding C03-F1: backward projection always re-runs
                        // a projection when a firewall below it was re-executed
                        // with a value different from the firewall's *previous*
                        // one - even if that value is what the projection read in
                        // its own previous run (A -> B -> A while the projection
                        // was not demanded, or the projection has already been
                        // recomputed by a direct request).
                        // (backward projection is the only path that forces a
                        // projection to run, so every unjustified run of a
                        // projection is attributed to it)
                        // Narrowed: backward projection from a firewall/projection `d` is
                        // armed when `d` is re-executed with a value different from its own
                        // previous execution, and stays armed until it has run (which the
                        // harness sees only through its effect). A projection that is re-run
                        // unjustified while no firewall/projection it read is armed is not
                        // this finding.
                        let aba = r.node.kind == Kind::P && preads.iter().any(|(d, _)| matches!(d.kind, Kind::F | Kind::P) && self.bp_armed.contains(d));
                        if !changed && aba {
                            // which armed backward projection ran is known only if there is
                            // exactly one candidate; otherwise all stay armed (no false alarm,
                            // at the price of attributing more to the finding)
                            let mut cand: Vec<NodeId> = preads.iter().map(|x| x.0).filter(|d| self.bp_armed.contains(d)).collect();
                            cand.sort();
                            cand.dedup();
                            if cand.len() == 1 {
                                drained.insert(cand[0]);
                            }
                        }

                        if !changed && aba {
                            self.flag("C03", "projection-rerun-on-ABA-firewall", Json::obj()
                                .set("node", format!("{:?}", r.node))
                                .set("epoch", self.epoch)
                                .set("previous_run_epoch", *pe)
                                .set("previous_reads", format!("{preads:?}")));
                        } else if !changed {
                            self.flag("C03", "unjustified-reexecution", Json::obj()
                                .set("node", format!("{:?}", r.node))
                                .set("epoch", self.epoch)
                                .set("previous_run_epoch", *pe)
                                .set("previous_reads", format!("{preads:?}"))
                                .set("note", "none of the previously read dependencies has a different value now"));
                        }
                        self.stats.reexecutions += 1;
                        self.reexec_now.insert(r.node);
                    }
                }
            }
            self.ran_in_epoch.insert(r.node);
            if let ExecResult::Value(v) = &r.result {
                self.value_history.entry(r.node).or_default().push((self.epoch, *v));
            }
            {
                let ids = |v: &[(NodeId, i64)]| v.iter().map(|x| x.0).collect::<BTreeSet<NodeId>>();
                let changed = self.last_run.get(&r.node).is_none_or(|(_, prev)| ids(prev) != ids(&r.reads));
                if changed {
                    self.deps_changed_epoch.insert(r.node, self.epoch);
                }
            }
            self.last_run.insert(r.node, (self.epoch, r.reads.clone()));
        }
        // a backward projection that has been seen to run is no longer pending
        for d in drained {
            self.bp_armed.remove(&d);
        }
    }

    /// Cut-off statistic: a node that was *not* re-executed in this epoch
    /// although one of the deps it read last time was.
    pub fn count_cutoffs(&mut self) {
        let mut n = 0;
        for (node, (_, reads)) in &self.last_run {
            if !self.reexec_now.contains(node) && reads.iter().any(|(d, _)| self.reexec_now.contains(d)) {
                n += 1;
            }
        }
        self.stats.cutoffs += n;
    }
}

/// What one sequential run of a history produced.
pub struct RunOutcome {
    pub oracle: Oracle,
    pub shutdown_ok: bool,
    pub steps_done: usize,
    /// per history step: the queries that executors read (executor-level reads
    /// are where the known finding C01-F1 arises)
    pub exec_read_targets: BTreeMap<usize, BTreeSet<NodeId>>,
}

/// Counterfactual mode of the C01-F1 classifier: before the query steps at
/// index >= `from_step` the *user* repairs the transitive firewall callees of
/// already computed queries - of all of them (`only == None`) or only of
/// those listed for that step (the queries executors read at that step in
/// the run under examination).
#[derive(Clone, Debug, Default)]
pub struct Prerepair {
    pub from_step: usize,
    pub only: Option<BTreeMap<usize, BTreeSet<NodeId>>>,
}

fn set_result_expected(prev: Option<i64>, new: i64) -> SetInputResult {
    match prev {
        None => SetInputResult::Fresh,
        Some(p) if p == new => SetInputResult::Unchanged,
        Some(_) => SetInputResult::Updated,
    }
}

/// Run `history` sequentially (one driver task, strictly alternating phases)
/// against a fresh engine on backend `b`, checking C01 / C03 online.
pub async fn run_sequential<B: Backend>(
    b: &B,
    prog: Arc<Program>,
    history: &[Step],
    yield_freq: YieldFrequency,
    exec_yields: u32,
    prerepair: Option<&Prerepair>,
) -> RunOutcome {
    let mut exec_read_targets: BTreeMap<usize, BTreeSet<NodeId>> = BTreeMap::new();
    let ctx = ExecCtx::new(prog.clone());
    ctx.exec_yields.store(exec_yields, Ordering::Relaxed);
    let mut or = Oracle::new(prog.clone());
    let mut engine = open_engine(b, &ctx, yield_freq).await.expect("open");
    let mut steps_done = 0;
    let mut shutdown_ok = true;
    let mut last_session_changed = true;
    let mut first_query_in_epoch = true;
    let mut just_restarted = false;

    for (step_index, step) in history.iter().enumerate() {
        or.cur_step = step_index;
        let prerepair_tfc = prerepair.is_some_and(|p| step_index >= p.from_step);
        match step {
            Step::Session { .. } => first_query_in_epoch = true,
            _ => {}
        }
        match step {
            Step::Session { cells, writes, commit } => {
                for (x, v) in cells {
                    ctx.cells.lock().insert(*x, *v);
                    or.cells.insert(*x, *v);
                }
                or.begin_session();
                ctx.epoch.store(or.epoch, Ordering::SeqCst);
                let mut s = engine.input_session().await;
                let mut changed = false;
                for w in writes {
                    match w {
                        Write::Set(i, v) => {
                            let res = s.set_input(In(*i), *v).await;
                            let prev = or.refr.inputs.get(i).copied();
                            let exp = set_result_expected(prev, *v);
                            or.stats.set_results += 1;
                            if res != exp {
                                or.flag("C01", "set-input-result", Json::obj()
                                    .set("input", *i).set("value", *v).set("got", format!("{res:?}")).set("expected", format!("{exp:?}")));
                            }
                            changed |= prev != Some(*v);
                            or.refr.inputs.insert(*i, *v);
                        }
                        Write::Update(i, u) => {
                            let prev = or.refr.inputs.get(i).copied();
                            let seen = Arc::new(parking_lot::Mutex::new(None));
                            let seen2 = seen.clone();
                            let u2 = u.clone();
                            let res = s
                                .update(In(*i), move |cur| {
                                    *seen2.lock() = Some(cur);
                                    u2.apply(cur)
                                })
                                .await;
                            let new = u.apply(prev);
                            let exp = set_result_expected(prev, new);
                            or.stats.set_results += 1;
                            let got_cur = seen.lock().take();
                            if got_cur != Some(prev) {
                                or.flag("C01", "update-closure-saw-wrong-current-value", Json::obj()
                                    .set("input", *i).set("got", format!("{got_cur:?}")).set("expected", format!("{prev:?}")));
                            }
                            if res != exp {
                                or.flag("C01", "set-input-result", Json::obj()
                                    .set("input", *i).set("value", new).set("got", format!("{res:?}")).set("expected", format!("{exp:?}")));
                            }
                            changed |= prev != Some(new);
                            or.refr.inputs.insert(*i, new);
                        }
                        Write::Refresh => {
                            or.refresh_in_epoch = true;
                            or.stats.x_refreshes += 1;
                            s.refresh::<X>().await;
                            // every captured cell is re-captured
                            let keys: Vec<u32> = or.refr.xcap.keys().copied().collect();
                            for k in keys {
                                let v = or.cells.get(&k).copied().unwrap_or(0);
                                if or.refr.xcap.get(&k) != Some(&v) {
                                    changed = true;
                                }
                                or.refr.xcap.insert(k, v);
                            }
                            let recs = ctx.log.take();
                            or.judge(&recs, true, false);
                        }
                    }
                }
                if *commit {
                    s.commit().await;
                } else {
                    drop(s);
                }
                // (a refresh re-runs every external-input executor the *engine* has ever run,
                // including ones that only ran inside partial executions the engine aborted
                // itself and that the reference never demanded: whether such a session
                // "changes nothing" is not decidable from outside, so it counts as changing)
                last_session_changed = changed || writes.iter().any(|w| matches!(w, Write::Refresh));
                if std::env::var("QV_DEBUG2").is_ok() {
                    eprintln!("DEBUG2 session epoch {} changed={} writes={:?} commit={}", or.epoch, changed, writes, commit);
                }
                if std::env::var("QV_DEBUG").is_ok() {
                    let t = engine.clone().tracked().await;
                    eprintln!("DEBUG epoch {} changed={} dirtied={} writes={:?} commit={}", or.epoch, changed, t.get_dirtied_edges_count(), writes, commit);
                }
                if !changed {
                    or.stats.unchanged_sessions += 1;
                }
            }
            Step::Query { roots, mode } => {
                if prerepair_tfc {
                    // counterfactual mode (classifier of finding C01-F1): make the
                    // user repair the transitive firewall callees of every node
                    // computed so far before anything is queried.
                    let t = engine.clone().tracked().await;
                    let mut known: Vec<NodeId> = or.last_run.keys().copied().collect();
                    if let Some(only) = prerepair.and_then(|p| p.only.as_ref()) {
                        let empty = BTreeSet::new();
                        let set = only.get(&step_index).unwrap_or(&empty);
                        known.retain(|n| set.contains(n));
                    }
                    for n in topo_order(&prog, &known) {
                        match n.kind {
                            Kind::N => t.repair_transitive_firewall_callees(&N(n.idx)).await,
                            Kind::F => t.repair_transitive_firewall_callees(&F(n.idx)).await,
                            Kind::P => t.repair_transitive_firewall_callees(&P(n.idx)).await,
                            _ => {}
                        }
                    }
                }
                let (exp, _) = or.expect(roots);
                let got: Vec<(NodeId, i64)> = match mode {
                    QMode::Seq => {
                        let t = engine.clone().tracked().await;
                        if std::env::var("QV_DEBUG2").is_ok() {
                            eprintln!("DEBUG2 query epoch {} dirtied={} roots={:?}", or.epoch, t.get_dirtied_edges_count(), roots);
                        }
                        // only right after the session: later in the epoch the
                        // statistic also counts firewall-triggered propagation
                        // of changes made by *earlier* sessions
                        if !last_session_changed && first_query_in_epoch && !prerepair_tfc && t.get_dirtied_edges_count() != 0 {
                            or.flag("C03", "dirtied-edges-after-unchanged-session", Json::obj()
                                .set("count", t.get_dirtied_edges_count()).set("epoch", or.epoch));
                        }
                        let mut out = Vec::new();
                        for n in roots {
                            out.push((*n, query_node(&t, *n).await));
                        }
                        out
                    }
                    QMode::Join => {
                        let t = engine.clone().tracked().await;
                        let vs = futures::future::join_all(roots.iter().map(|n| query_node(&t, *n))).await;
                        roots.iter().copied().zip(vs).collect()
                    }
                    QMode::Par(k) => {
                        let mut hs = Vec::new();
                        for chunk in 0..*k {
                            let mine: Vec<NodeId> = roots.iter().copied().skip(chunk).step_by(*k).collect();
                            let e = engine.clone();
                            hs.push(tokio::spawn(async move {
                                let t = e.tracked().await;
                                let mut out = Vec::new();
                                for n in mine {
                                    out.push((n, query_node(&t, n).await));
                                }
                                out
                            }));
                        }
                        let mut out = Vec::new();
                        for h in hs {
                            out.extend(h.await.expect("query task"));
                        }
                        out
                    }
                };
                for (n, v) in got {
                    or.stats.query_returns += 1;
                    let e = exp[&n];
                    if v != e {
                        or.flag("C01", "user-value-differs", Json::obj()
                            .set("node", format!("{n:?}")).set("got", v).set("expected", e).set("epoch", or.epoch));
                    }
                }
                let recs = ctx.log.take();
                if std::env::var("QV_DEBUG3").is_ok() {
                    eprintln!("DEBUG3 epoch {} roots={:?} recs={:?}", or.epoch, roots, recs.iter().map(|x| (x.node, x.reads.clone(), x.result.clone())).collect::<Vec<_>>());
                }
                for x in &recs {
                    for (d, _) in &x.reads {
                        if matches!(d.kind, Kind::N | Kind::F | Kind::P) {
                            exec_read_targets.entry(step_index).or_default().insert(*d);
                        }
                    }
                }
                if just_restarted {
                    if recs.is_empty() {
                        or.stats.served_from_store_after_restart += roots.len() as u64;
                    }
                    just_restarted = false;
                }
                or.judge(&recs, false, false);
                or.count_cutoffs();
                for n in closure(&prog, roots) {
                    or.verified_epoch.insert(n, or.epoch);
                }
                first_query_in_epoch = false;
                let ov = std::mem::take(&mut *ctx.log.overlaps.lock());
                for (n, _) in ov {
                    or.flag("C02", "single-flight-overlap", Json::obj().set("node", format!("{n:?}")));
                }
            }
            Step::Restart => {
                or.stats.restarts += 1;
                let ok = shutdown(engine).await;
                shutdown_ok &= ok;
                engine = open_engine(b, &ctx, yield_freq).await.expect("reopen");
                // a restart opens no new epoch; statistics are in-memory only
                last_session_changed = true;
                just_restarted = true;
            }
        }
        steps_done += 1;
        if or.violations.len() >= 4 {
            break;
        }
    }
    let ok = shutdown(engine).await;
    shutdown_ok &= ok;
    RunOutcome { oracle: or, shutdown_ok, steps_done, exec_read_targets }
}

pub fn violation_from(prop: &str, kind: &str, detail: &Json, case: &Json) -> Violation {
    Violation {
        signature: format!("{prop}/{kind}"),
        what: format!("{kind}: {}", detail.render()),
        witness: Json::obj().set("detail", detail.clone()).set("case", case.clone()),
    }
}
