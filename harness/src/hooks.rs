//! Harness side of the `verif` hooks: hit counters, seeded yield / delay
//! policies, rendezvous, interleaving-trace hashing.

use std::{
    collections::{BTreeMap, HashMap},
    sync::{
        Arc, OnceLock,
        atomic::{AtomicBool, AtomicU64, Ordering},
    },
    time::Duration,
};

use parking_lot::{Condvar, Mutex};
use qbice_storage::verif::Hook;

use crate::util::Rng;

#[derive(Clone, Debug)]
pub enum YieldPolicy {
    Off,
    /// yield with probability num/den at every async site whose name starts
    /// with one of `prefixes` (empty = all)
    Prob { num: u64, den: u64, prefixes: Vec<&'static str> },
    /// yield at every `pre:` site (maximal-yield policy of C05)
    AllPre,
}

#[derive(Clone, Debug)]
pub enum PointPolicy {
    Off,
    /// sleep/spin up to max_us with probability num/den
    Delay { max_us: u64, num: u64, den: u64 },
}

pub struct Rendezvous {
    pub site: &'static str,
    /// thread that arrives at `site` while `armed` parks until `release`
    pub armed: AtomicBool,
    pub parked: Mutex<bool>,
    pub parked_cv: Condvar,
    pub released: Mutex<bool>,
    pub release_cv: Condvar,
}

pub struct State {
    hits: Mutex<HashMap<&'static str, u64>>,
    yields: AtomicU64,
    yield_policy: Mutex<YieldPolicy>,
    point_policy: Mutex<PointPolicy>,
    rng: Mutex<Rng>,
    trace: AtomicU64,
    rendezvous: Mutex<Option<Arc<Rendezvous>>>,
    counting: AtomicBool,
}

struct Impl;

fn st() -> &'static State {
    static S: OnceLock<State> = OnceLock::new();
    S.get_or_init(|| State {
        hits: Mutex::new(HashMap::new()),
        yields: AtomicU64::new(0),
        yield_policy: Mutex::new(YieldPolicy::Off),
        point_policy: Mutex::new(PointPolicy::Off),
        rng: Mutex::new(Rng::new(1)),
        trace: AtomicU64::new(0),
        rendezvous: Mutex::new(None),
        counting: AtomicBool::new(true),
    })
}

fn hit(site: &'static str) {
    if st().counting.load(Ordering::Relaxed) {
        *st().hits.lock().entry(site).or_insert(0) += 1;
    }
}

fn mix(site: &'static str, decision: u64) {
    let h = crate::util::h64(&(site, decision));
    // order-sensitive fold (single-thread schedules); for parallel runs it is
    // just a fingerprint
    let mut cur = st().trace.load(Ordering::Relaxed);
    loop {
        let new = cur.rotate_left(5) ^ h;
        match st().trace.compare_exchange_weak(cur, new, Ordering::Relaxed, Ordering::Relaxed) {
            Ok(_) => break,
            Err(c) => cur = c,
        }
    }
}

impl Hook for Impl {
    fn point(&self, site: &'static str) {
        hit(site);
        if let Some(rv) = st().rendezvous.lock().clone() {
            if rv.site == site && rv.armed.swap(false, Ordering::SeqCst) {
                *rv.parked.lock() = true;
                rv.parked_cv.notify_all();
                let mut r = rv.released.lock();
                let mut waited = 0;
                while !*r && waited < 500 {
                    rv.release_cv.wait_for(&mut r, Duration::from_millis(10));
                    waited += 1;
                }
                return;
            }
        }
        let pol = st().point_policy.lock().clone();
        if let PointPolicy::Delay { max_us, num, den } = pol {
            let (go, us) = {
                let mut r = st().rng.lock();
                (r.chance(num, den), r.below(max_us + 1))
            };
            if go {
                if us < 20 {
                    for _ in 0..us * 50 {
                        std::hint::spin_loop();
                    }
                    std::thread::yield_now();
                } else {
                    std::thread::sleep(Duration::from_micros(us));
                }
            }
        }
    }

    fn should_yield(&self, site: &'static str) -> bool {
        hit(site);
        let pol = st().yield_policy.lock().clone();
        let y = match pol {
            YieldPolicy::Off => false,
            YieldPolicy::AllPre => site.starts_with("pre:"),
            YieldPolicy::Prob { num, den, prefixes } => {
                (prefixes.is_empty() || prefixes.iter().any(|p| site.starts_with(p)))
                    && st().rng.lock().chance(num, den)
            }
        };
        mix(site, u64::from(y));
        if y {
            st().yields.fetch_add(1, Ordering::Relaxed);
        }
        y
    }
}

/// Install the hook implementation (idempotent).
pub fn install() {
    static ONCE: OnceLock<()> = OnceLock::new();
    ONCE.get_or_init(|| {
        qbice_storage::verif::install(Some(Arc::new(Impl)));
    });
}

pub fn set_yield(p: YieldPolicy, seed: u64) {
    install();
    *st().yield_policy.lock() = p;
    *st().rng.lock() = Rng::new(seed);
    st().trace.store(0, Ordering::Relaxed);
}

pub fn set_point(p: PointPolicy) {
    install();
    *st().point_policy.lock() = p;
}

pub fn set_counting(on: bool) { st().counting.store(on, Ordering::Relaxed); }

pub fn trace_hash() -> u64 { st().trace.load(Ordering::Relaxed) }

pub fn yields() -> u64 { st().yields.load(Ordering::Relaxed) }

pub fn hits() -> BTreeMap<String, u64> {
    st().hits.lock().iter().map(|(k, v)| ((*k).to_string(), *v)).collect()
}

pub fn hit_count(site: &str) -> u64 { st().hits.lock().get(site).copied().unwrap_or(0) }

pub fn arm_rendezvous(site: &'static str) -> Arc<Rendezvous> {
    install();
    let rv = Arc::new(Rendezvous {
        site,
        armed: AtomicBool::new(true),
        parked: Mutex::new(false),
        parked_cv: Condvar::new(),
        released: Mutex::new(false),
        release_cv: Condvar::new(),
    });
    *st().rendezvous.lock() = Some(rv.clone());
    rv
}

impl Rendezvous {
    /// wait until some thread is parked at the site (false on timeout)
    pub fn wait_parked(&self, ms: u64) -> bool {
        let mut p = self.parked.lock();
        let mut waited = 0;
        while !*p && waited < ms {
            self.parked_cv.wait_for(&mut p, Duration::from_millis(1));
            waited += 1;
        }
        *p
    }

    pub fn release(&self) {
        *self.released.lock() = true;
        self.release_cv.notify_all();
    }
}

pub fn clear_rendezvous() { *st().rendezvous.lock() = None; }

/// epoch of the logical batch being serialized on this thread (verif hook)
pub fn current_epoch() -> Option<u64> { qbice_storage::verif::serializing_epoch() }
