//! Value generators for the codec / hash universes (C12, C13).

#![allow(clippy::type_complexity)]

use std::{
    borrow::Cow,
    cell::{Cell, RefCell},
    cmp::Reverse,
    collections::{BTreeMap, BTreeSet, HashMap, HashSet, LinkedList, VecDeque},
    hash::Hash,
    num::Wrapping,
    ops::Bound,
    path::PathBuf,
    rc::Rc,
    sync::{Arc, OnceLock},
    time::Duration,
};

use dashmap::{DashMap, DashSet};
use qbice_stable_hash::{SeededStableHasherBuilder, Sip128Hasher};
use qbice_storage::intern::{Interned, Interner};

use crate::util::Rng;

pub fn interner() -> &'static Interner {
    static I: OnceLock<Interner> = OnceLock::new();
    I.get_or_init(|| Interner::new(16, SeededStableHasherBuilder::<Sip128Hasher>::new(7)))
}

/// A type whose values we can generate, compare structurally (bit-equality
/// for floats, content equality for cells/atomics/concurrent maps) and rebuild
/// through a different construction history.
pub trait Gen: Sized + 'static {
    fn generate(r: &mut Rng, d: u32) -> Self;
    fn same(&self, o: &Self) -> bool;
    /// an equal value built through a different history (order, capacity,
    /// hasher state, fresh allocation)
    fn rebuild(&self, r: &mut Rng) -> Self;
}

fn small_len(r: &mut Rng, d: u32) -> usize {
    if d == 0 {
        return r.usize_below(2);
    }
    match r.below(20) {
        0 => 127,
        1 => 128,
        2..=6 => 0,
        7..=10 => 1,
        _ => r.usize_below(6),
    }
}

macro_rules! gen_int {
    ($($t:ty),*) => {$(
        impl Gen for $t {
            fn generate(r: &mut Rng, _d: u32) -> Self {
                let bits = <$t>::BITS;
                match r.below(10) {
                    0 => <$t>::MIN,
                    1 => <$t>::MAX,
                    2 => 0 as $t,
                    3 => (0 as $t).wrapping_sub(1),
                    4 | 5 => {
                        // varint boundaries 2^(7k) -1,0,+1 (and negated)
                        let k = 1 + r.below(u64::from(bits / 7 + 1)) as u32;
                        let sh = (7 * k).min(bits - 1);
                        let base = (1 as $t).wrapping_shl(sh);
                        let v = match r.below(3) { 0 => base.wrapping_sub(1), 1 => base, _ => base.wrapping_add(1) };
                        if r.chance(1, 2) { v } else { (0 as $t).wrapping_sub(v) }
                    }
                    6 => (r.next_u64() % 300) as $t,
                    _ => {
                        let lo = r.next_u64() as u128;
                        let hi = r.next_u64() as u128;
                        ((hi << 64) | lo) as $t
                    }
                }
            }
            fn same(&self, o: &Self) -> bool { self == o }
            fn rebuild(&self, _r: &mut Rng) -> Self { *self }
        }
    )*};
}
gen_int!(u8, u16, u32, u64, u128, usize, i8, i16, i32, i64, i128, isize);

impl Gen for bool {
    fn generate(r: &mut Rng, _d: u32) -> Self { r.chance(1, 2) }
    fn same(&self, o: &Self) -> bool { self == o }
    fn rebuild(&self, _r: &mut Rng) -> Self { *self }
}

impl Gen for char {
    fn generate(r: &mut Rng, _d: u32) -> Self {
        match r.below(8) {
            0 => '\0',
            1 => char::MAX,
            2 => '\u{D7FF}',
            3 => '\u{E000}',
            4 => '\u{7f}',
            5 => '\u{80}',
            6 => 'é',
            _ => char::from_u32(r.below(0x11_0000) as u32).unwrap_or('x'),
        }
    }
    fn same(&self, o: &Self) -> bool { self == o }
    fn rebuild(&self, _r: &mut Rng) -> Self { *self }
}

thread_local! {
    /// when set, generated floats never carry a non-canonical NaN payload
    pub static CANON_NAN: Cell<bool> = const { Cell::new(false) };
}

macro_rules! gen_float {
    ($t:ty, $b:ty) => {
        impl Gen for $t {
            fn generate(r: &mut Rng, _d: u32) -> Self {
                match r.below(12) {
                    0 => 0.0,
                    1 => -0.0,
                    2 => <$t>::INFINITY,
                    3 => <$t>::NEG_INFINITY,
                    4 => <$t>::NAN,
                    5 => <$t>::MIN_POSITIVE / 2.0,
                    6 => <$t>::MAX,
                    7 => <$t>::EPSILON,
                    8 => 1.5,
                    _ => {
                        let f = <$t>::from_bits(r.next_u64() as $b);
                        if f.is_nan() && CANON_NAN.with(Cell::get) { <$t>::NAN } else { f }
                    }
                }
            }
            fn same(&self, o: &Self) -> bool { self.to_bits() == o.to_bits() }
            fn rebuild(&self, _r: &mut Rng) -> Self { *self }
        }
    };
}
gen_float!(f32, u32);
gen_float!(f64, u64);

fn gen_string(r: &mut Rng, d: u32) -> String {
    const A: &[&str] = &["", "a", "ab", "c", "bc", "é", "日本", "\0", "a\0b", "😀", " ", "\u{7f}"];
    match r.below(24) {
        0 => "x".repeat(127),
        1 => "y".repeat(128),
        2 if d > 1 => "z".repeat(16384),
        3 if d > 1 => "w".repeat(16383),
        _ => {
            let n = r.usize_below(4);
            (0..n).map(|_| *r.pick(A)).collect()
        }
    }
}

impl Gen for String {
    fn generate(r: &mut Rng, d: u32) -> Self { gen_string(r, d) }
    fn same(&self, o: &Self) -> bool { self == o }
    fn rebuild(&self, _r: &mut Rng) -> Self {
        let mut s = String::with_capacity(self.len() + 17);
        s.push_str(self);
        s
    }
}

impl Gen for () {
    fn generate(_r: &mut Rng, _d: u32) -> Self {}
    fn same(&self, _o: &Self) -> bool { true }
    fn rebuild(&self, _r: &mut Rng) -> Self {}
}

macro_rules! gen_tuple {
    ($($n:ident $i:tt),+) => {
        impl<$($n: Gen),+> Gen for ($($n,)+) {
            fn generate(r: &mut Rng, d: u32) -> Self { ($($n::generate(r, d.saturating_sub(1)),)+) }
            fn same(&self, o: &Self) -> bool { $(self.$i.same(&o.$i))&&+ }
            fn rebuild(&self, r: &mut Rng) -> Self { ($(self.$i.rebuild(r),)+) }
        }
    };
}
gen_tuple!(A 0);
gen_tuple!(A 0, B 1);
gen_tuple!(A 0, B 1, C 2);
gen_tuple!(A 0, B 1, C 2, D 3);
gen_tuple!(A 0, B 1, C 2, D 3, E 4, F 5, G 6, H 7, I 8, J 9, K 10, L 11);

impl<T: Gen> Gen for Option<T> {
    fn generate(r: &mut Rng, d: u32) -> Self {
        if r.chance(1, 3) { None } else { Some(T::generate(r, d.saturating_sub(1))) }
    }
    fn same(&self, o: &Self) -> bool {
        match (self, o) {
            (None, None) => true,
            (Some(a), Some(b)) => a.same(b),
            _ => false,
        }
    }
    fn rebuild(&self, r: &mut Rng) -> Self { self.as_ref().map(|x| x.rebuild(r)) }
}

impl<T: Gen, E: Gen> Gen for Result<T, E> {
    fn generate(r: &mut Rng, d: u32) -> Self {
        if r.chance(1, 2) {
            Ok(T::generate(r, d.saturating_sub(1)))
        } else {
            Err(E::generate(r, d.saturating_sub(1)))
        }
    }
    fn same(&self, o: &Self) -> bool {
        match (self, o) {
            (Ok(a), Ok(b)) => a.same(b),
            (Err(a), Err(b)) => a.same(b),
            _ => false,
        }
    }
    fn rebuild(&self, r: &mut Rng) -> Self {
        match self {
            Ok(a) => Ok(a.rebuild(r)),
            Err(a) => Err(a.rebuild(r)),
        }
    }
}

fn gen_vec<T: Gen>(r: &mut Rng, d: u32) -> Vec<T> {
    let mut n = small_len(r, d);
    if std::mem::size_of::<T>() > 64 || d < 2 {
        n = n.min(5);
    }
    (0..n).map(|_| T::generate(r, d.saturating_sub(1))).collect()
}

fn same_seq<'a, T: Gen>(
    a: impl ExactSizeIterator<Item = &'a T>,
    b: impl ExactSizeIterator<Item = &'a T>,
) -> bool {
    a.len() == b.len() && a.zip(b).all(|(x, y)| x.same(y))
}

impl<T: Gen> Gen for Vec<T> {
    fn generate(r: &mut Rng, d: u32) -> Self { gen_vec(r, d) }
    fn same(&self, o: &Self) -> bool { same_seq(self.iter(), o.iter()) }
    fn rebuild(&self, r: &mut Rng) -> Self {
        let mut v = Vec::with_capacity(self.len() + r.usize_below(9));
        for x in self {
            v.push(x.rebuild(r));
        }
        v
    }
}

impl<T: Gen> Gen for VecDeque<T> {
    fn generate(r: &mut Rng, d: u32) -> Self {
        let v: Vec<T> = gen_vec(r, d);
        let mut q = VecDeque::new();
        // build through front/back pushes so the ring buffer is rotated
        let mid = v.len() / 2;
        let mut front: Vec<T> = Vec::new();
        let mut back: Vec<T> = Vec::new();
        for (i, x) in v.into_iter().enumerate() {
            if i < mid { front.push(x) } else { back.push(x) }
        }
        for x in back {
            q.push_back(x);
        }
        for x in front.into_iter().rev() {
            q.push_front(x);
        }
        q
    }
    fn same(&self, o: &Self) -> bool { same_seq(self.iter(), o.iter()) }
    fn rebuild(&self, r: &mut Rng) -> Self { self.iter().map(|x| x.rebuild(r)).collect() }
}

impl<T: Gen> Gen for LinkedList<T> {
    fn generate(r: &mut Rng, d: u32) -> Self { gen_vec::<T>(r, d).into_iter().collect() }
    fn same(&self, o: &Self) -> bool { same_seq(self.iter(), o.iter()) }
    fn rebuild(&self, r: &mut Rng) -> Self { self.iter().map(|x| x.rebuild(r)).collect() }
}

impl<T: Gen, const N: usize> Gen for [T; N] {
    fn generate(r: &mut Rng, d: u32) -> Self {
        std::array::from_fn(|_| T::generate(r, d.saturating_sub(1)))
    }
    fn same(&self, o: &Self) -> bool { same_seq(self.iter(), o.iter()) }
    fn rebuild(&self, r: &mut Rng) -> Self { std::array::from_fn(|i| self[i].rebuild(r)) }
}

macro_rules! gen_ptr {
    ($($p:ident),*) => {$(
        impl<T: Gen> Gen for $p<T> {
            fn generate(r: &mut Rng, d: u32) -> Self { $p::new(T::generate(r, d)) }
            fn same(&self, o: &Self) -> bool { (**self).same(&**o) }
            fn rebuild(&self, r: &mut Rng) -> Self { $p::new((**self).rebuild(r)) }
        }
        impl<T: Gen> Gen for $p<[T]> {
            fn generate(r: &mut Rng, d: u32) -> Self { gen_vec::<T>(r, d).into() }
            fn same(&self, o: &Self) -> bool { same_seq(self.iter(), o.iter()) }
            fn rebuild(&self, r: &mut Rng) -> Self {
                self.iter().map(|x| x.rebuild(r)).collect::<Vec<_>>().into()
            }
        }
        impl Gen for $p<str> {
            fn generate(r: &mut Rng, d: u32) -> Self { gen_string(r, d).into() }
            fn same(&self, o: &Self) -> bool { **self == **o }
            fn rebuild(&self, _r: &mut Rng) -> Self { String::from(&**self).into() }
        }
    )*};
}
gen_ptr!(Box, Rc, Arc);

impl Gen for Cow<'static, str> {
    fn generate(r: &mut Rng, d: u32) -> Self {
        if r.chance(1, 2) { Cow::Owned(gen_string(r, d)) } else { Cow::Borrowed(*r.pick(&["", "lit", "a\0"])) }
    }
    fn same(&self, o: &Self) -> bool { **self == **o }
    fn rebuild(&self, _r: &mut Rng) -> Self { Cow::Owned(self.to_string()) }
}

impl<T: Gen + Clone> Gen for Cow<'static, [T]> {
    fn generate(r: &mut Rng, d: u32) -> Self { Cow::Owned(gen_vec(r, d)) }
    fn same(&self, o: &Self) -> bool { same_seq(self.iter(), o.iter()) }
    fn rebuild(&self, r: &mut Rng) -> Self { Cow::Owned(self.iter().map(|x| x.rebuild(r)).collect()) }
}

impl<T: Gen + Clone> Gen for Cow<'static, T> {
    fn generate(r: &mut Rng, d: u32) -> Self { Cow::Owned(T::generate(r, d)) }
    fn same(&self, o: &Self) -> bool { (**self).same(&**o) }
    fn rebuild(&self, r: &mut Rng) -> Self { Cow::Owned((**self).rebuild(r)) }
}

/// Keys for maps/sets: need Eq + Hash + Ord and a *small* domain so that
/// collisions between generated keys are common.
pub trait GenKey: Gen + Eq + Hash + Ord + Clone {}
impl GenKey for u8 {}
impl GenKey for i32 {}
impl GenKey for u64 {}
impl GenKey for String {}
impl GenKey for char {}
impl GenKey for bool {}
impl GenKey for (u8, String) {}
impl GenKey for Vec<u8> {}
impl GenKey for Option<i32> {}

fn gen_entries<K: GenKey, V: Gen>(r: &mut Rng, d: u32) -> Vec<(K, V)> {
    let n = small_len(r, d).min(40);
    let mut out: Vec<(K, V)> = Vec::new();
    for _ in 0..n {
        let k = K::generate(r, d.saturating_sub(1));
        if !out.iter().any(|e| e.0 == k) {
            out.push((k, V::generate(r, d.saturating_sub(1))));
        }
    }
    out
}

impl<K: GenKey, V: Gen> Gen for HashMap<K, V> {
    fn generate(r: &mut Rng, d: u32) -> Self { gen_entries(r, d).into_iter().collect() }
    fn same(&self, o: &Self) -> bool {
        self.len() == o.len() && self.iter().all(|(k, v)| o.get(k).is_some_and(|w| v.same(w)))
    }
    fn rebuild(&self, r: &mut Rng) -> Self {
        // fresh RandomState, different capacity, shuffled insertion order,
        // insert-then-remove noise
        let mut es: Vec<(&K, &V)> = self.iter().collect();
        r.shuffle(&mut es);
        let mut m = HashMap::with_capacity(r.usize_below(64));
        for (k, v) in &es {
            m.insert((*k).clone(), v.rebuild(r));
        }
        if let Some((k, v)) = es.first() {
            m.remove(*k);
            m.insert((*k).clone(), v.rebuild(r));
        }
        m.shrink_to(r.usize_below(8));
        m
    }
}

impl<K: GenKey> Gen for HashSet<K> {
    fn generate(r: &mut Rng, d: u32) -> Self {
        gen_entries::<K, ()>(r, d).into_iter().map(|e| e.0).collect()
    }
    fn same(&self, o: &Self) -> bool { self == o }
    fn rebuild(&self, r: &mut Rng) -> Self {
        let mut es: Vec<&K> = self.iter().collect();
        r.shuffle(&mut es);
        let mut m = HashSet::with_capacity(r.usize_below(64));
        for k in es {
            m.insert(k.clone());
        }
        m
    }
}

impl<K: GenKey, V: Gen> Gen for BTreeMap<K, V> {
    fn generate(r: &mut Rng, d: u32) -> Self { gen_entries(r, d).into_iter().collect() }
    fn same(&self, o: &Self) -> bool {
        self.len() == o.len() && self.iter().zip(o.iter()).all(|(a, b)| a.0 == b.0 && a.1.same(b.1))
    }
    fn rebuild(&self, r: &mut Rng) -> Self {
        let mut es: Vec<(&K, &V)> = self.iter().collect();
        r.shuffle(&mut es);
        es.into_iter().map(|(k, v)| (k.clone(), v.rebuild(r))).collect()
    }
}

impl<K: GenKey> Gen for BTreeSet<K> {
    fn generate(r: &mut Rng, d: u32) -> Self {
        gen_entries::<K, ()>(r, d).into_iter().map(|e| e.0).collect()
    }
    fn same(&self, o: &Self) -> bool { self == o }
    fn rebuild(&self, r: &mut Rng) -> Self {
        let mut es: Vec<&K> = self.iter().collect();
        r.shuffle(&mut es);
        es.into_iter().cloned().collect()
    }
}

impl<K: GenKey, V: Gen> Gen for DashMap<K, V> {
    fn generate(r: &mut Rng, d: u32) -> Self { gen_entries(r, d).into_iter().collect() }
    fn same(&self, o: &Self) -> bool {
        self.len() == o.len()
            && self.iter().all(|e| o.get(e.key()).is_some_and(|w| e.value().same(w.value())))
    }
    fn rebuild(&self, r: &mut Rng) -> Self {
        let mut es: Vec<(K, V)> =
            self.iter().map(|e| (e.key().clone(), e.value().rebuild(r))).collect();
        r.shuffle(&mut es);
        let shards = 1usize << (1 + r.usize_below(4));
        let m = DashMap::with_shard_amount(shards);
        for (k, v) in es {
            m.insert(k, v);
        }
        m
    }
}

impl<K: GenKey> Gen for DashSet<K> {
    fn generate(r: &mut Rng, d: u32) -> Self {
        gen_entries::<K, ()>(r, d).into_iter().map(|e| e.0).collect()
    }
    fn same(&self, o: &Self) -> bool { self.len() == o.len() && self.iter().all(|k| o.contains(k.key())) }
    fn rebuild(&self, r: &mut Rng) -> Self {
        let mut es: Vec<K> = self.iter().map(|e| e.key().clone()).collect();
        r.shuffle(&mut es);
        let m = DashSet::new();
        for k in es {
            m.insert(k);
        }
        m
    }
}

macro_rules! gen_wrap1 {
    ($($w:ident => |$s:ident| $get:expr, |$v:ident| $mk:expr);* $(;)?) => {$(
        impl<T: Gen> Gen for $w<T> {
            fn generate(r: &mut Rng, d: u32) -> Self { let $v = T::generate(r, d); $mk }
            fn same(&self, o: &Self) -> bool {
                let a = { let $s = self; $get };
                let b = { let $s = o; $get };
                a.same(b)
            }
            fn rebuild(&self, r: &mut Rng) -> Self {
                let $v = { let $s = self; $get }.rebuild(r);
                $mk
            }
        }
    )*};
}
gen_wrap1!(
    Wrapping => |s| &s.0, |v| Wrapping(v);
    Reverse => |s| &s.0, |v| Reverse(v);
);

impl<T: Gen + Copy> Gen for Cell<T> {
    fn generate(r: &mut Rng, d: u32) -> Self { Cell::new(T::generate(r, d)) }
    fn same(&self, o: &Self) -> bool { self.get().same(&o.get()) }
    fn rebuild(&self, r: &mut Rng) -> Self { Cell::new(self.get().rebuild(r)) }
}

impl<T: Gen> Gen for RefCell<T> {
    fn generate(r: &mut Rng, d: u32) -> Self { RefCell::new(T::generate(r, d)) }
    fn same(&self, o: &Self) -> bool { self.borrow().same(&o.borrow()) }
    fn rebuild(&self, r: &mut Rng) -> Self { RefCell::new(self.borrow().rebuild(r)) }
}

impl<T: 'static> Gen for std::marker::PhantomData<T> {
    fn generate(_r: &mut Rng, _d: u32) -> Self { std::marker::PhantomData }
    fn same(&self, _o: &Self) -> bool { true }
    fn rebuild(&self, _r: &mut Rng) -> Self { std::marker::PhantomData }
}

impl Gen for Duration {
    fn generate(r: &mut Rng, d: u32) -> Self {
        Duration::new(u64::generate(r, d), (r.below(1_000_000_000)) as u32)
    }
    fn same(&self, o: &Self) -> bool { self == o }
    fn rebuild(&self, _r: &mut Rng) -> Self { *self }
}

impl Gen for PathBuf {
    fn generate(r: &mut Rng, d: u32) -> Self {
        let parts = ["", "/", "a", "a/b", "../x", "日本/é", "a b", "."];
        let mut p = PathBuf::from(*r.pick(&parts));
        if r.chance(1, 3) {
            p.push(gen_string(r, d.min(1)).replace('\0', "0"));
        }
        p
    }
    fn same(&self, o: &Self) -> bool { self.as_os_str() == o.as_os_str() }
    fn rebuild(&self, _r: &mut Rng) -> Self { PathBuf::from(self.as_os_str().to_owned()) }
}

macro_rules! gen_nonzero {
    ($($nz:ident $t:ty),*) => {$(
        impl Gen for std::num::$nz {
            fn generate(r: &mut Rng, d: u32) -> Self {
                loop {
                    if let Some(x) = std::num::$nz::new(<$t>::generate(r, d)) { return x; }
                }
            }
            fn same(&self, o: &Self) -> bool { self == o }
            fn rebuild(&self, _r: &mut Rng) -> Self { *self }
        }
    )*};
}
gen_nonzero!(
    NonZeroU8 u8, NonZeroU16 u16, NonZeroU32 u32, NonZeroU64 u64, NonZeroU128 u128,
    NonZeroUsize usize, NonZeroI8 i8, NonZeroI16 i16, NonZeroI32 i32, NonZeroI64 i64,
    NonZeroI128 i128, NonZeroIsize isize
);

macro_rules! gen_atomic {
    ($($a:ident $t:ty),*) => {$(
        impl Gen for std::sync::atomic::$a {
            fn generate(r: &mut Rng, d: u32) -> Self { std::sync::atomic::$a::new(<$t>::generate(r, d)) }
            fn same(&self, o: &Self) -> bool {
                self.load(std::sync::atomic::Ordering::SeqCst) == o.load(std::sync::atomic::Ordering::SeqCst)
            }
            fn rebuild(&self, _r: &mut Rng) -> Self {
                std::sync::atomic::$a::new(self.load(std::sync::atomic::Ordering::SeqCst))
            }
        }
    )*};
}
gen_atomic!(
    AtomicBool bool, AtomicI8 i8, AtomicI16 i16, AtomicI32 i32, AtomicI64 i64, AtomicIsize isize,
    AtomicU8 u8, AtomicU16 u16, AtomicU32 u32, AtomicU64 u64, AtomicUsize usize
);

macro_rules! gen_range {
    ($($w:ident => |$s:ident| ($($f:expr),*), |$($v:ident),*| $mk:expr);* $(;)?) => {$(
        impl<T: Gen> Gen for std::ops::$w<T> {
            fn generate(r: &mut Rng, d: u32) -> Self { $(let $v = T::generate(r, d);)* $mk }
            fn same(&self, o: &Self) -> bool {
                let a = { let $s = self; [$($f),*] };
                let b = { let $s = o; [$($f),*] };
                a.iter().zip(b.iter()).all(|(x, y)| x.same(y))
            }
            fn rebuild(&self, r: &mut Rng) -> Self {
                let parts = { let $s = self; [$($f),*] };
                let mut it = parts.iter();
                $(let $v = it.next().unwrap().rebuild(r);)*
                $mk
            }
        }
    )*};
}
gen_range!(
    Range => |s| (&s.start, &s.end), |a, b| a..b;
    RangeInclusive => |s| (s.start(), s.end()), |a, b| a..=b;
    RangeFrom => |s| (&s.start), |a| a..;
    RangeTo => |s| (&s.end), |a| ..a;
    RangeToInclusive => |s| (&s.end), |a| ..=a;
);

impl Gen for std::ops::RangeFull {
    fn generate(_r: &mut Rng, _d: u32) -> Self { .. }
    fn same(&self, _o: &Self) -> bool { true }
    fn rebuild(&self, _r: &mut Rng) -> Self { .. }
}

impl<T: Gen> Gen for Bound<T> {
    fn generate(r: &mut Rng, d: u32) -> Self {
        match r.below(3) {
            0 => Bound::Unbounded,
            1 => Bound::Included(T::generate(r, d)),
            _ => Bound::Excluded(T::generate(r, d)),
        }
    }
    fn same(&self, o: &Self) -> bool {
        match (self, o) {
            (Bound::Unbounded, Bound::Unbounded) => true,
            (Bound::Included(a), Bound::Included(b)) | (Bound::Excluded(a), Bound::Excluded(b)) => a.same(b),
            _ => false,
        }
    }
    fn rebuild(&self, r: &mut Rng) -> Self {
        match self {
            Bound::Unbounded => Bound::Unbounded,
            Bound::Included(a) => Bound::Included(a.rebuild(r)),
            Bound::Excluded(a) => Bound::Excluded(a.rebuild(r)),
        }
    }
}

// ---- interned handles -----------------------------------------------------

pub trait InternLeaf:
    Gen + qbice_stable_hash::StableHash + qbice_stable_type_id::Identifiable + Send + Sync
{
}
impl InternLeaf for u64 {}
impl InternLeaf for String {}
impl InternLeaf for Vec<u8> {}
impl InternLeaf for (u8, String) {}
impl InternLeaf for Option<i32> {}
impl InternLeaf for Vec<Interned<String>> {}
impl InternLeaf for Interned<u64> {}

impl<T: InternLeaf> Gen for Interned<T> {
    fn generate(r: &mut Rng, d: u32) -> Self { interner().intern(T::generate(r, d.min(2))) }
    fn same(&self, o: &Self) -> bool { (**self).same(&**o) }
    fn rebuild(&self, r: &mut Rng) -> Self { interner().intern((**self).rebuild(r)) }
}

impl Gen for Interned<str> {
    fn generate(r: &mut Rng, d: u32) -> Self {
        interner().intern_unsized::<str, String>(gen_string(r, d.min(2)))
    }
    fn same(&self, o: &Self) -> bool { **self == **o }
    fn rebuild(&self, _r: &mut Rng) -> Self {
        interner().intern_unsized::<str, Box<str>>(Box::from(&**self))
    }
}

impl Gen for Interned<[u8]> {
    fn generate(r: &mut Rng, d: u32) -> Self {
        interner().intern_unsized::<[u8], Vec<u8>>(gen_vec(r, d.min(2)))
    }
    fn same(&self, o: &Self) -> bool { **self == **o }
    fn rebuild(&self, _r: &mut Rng) -> Self {
        interner().intern_unsized::<[u8], Box<[u8]>>(Box::from(&**self))
    }
}
