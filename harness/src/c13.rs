//! C13 - stable hashes are deterministic, history-free and discriminating.

use std::{
    collections::{BTreeMap, HashMap, HashSet},
    path::PathBuf,
    process::Command,
};

use qbice_serialize::{Decode, Decoder, Encode, Encoder, PostcardDecoder, PostcardEncoder};
use qbice_stable_hash::{
    BuildStableHasher, SeededStableHasherBuilder, Sip128Hasher, StableHash, StableHasher,
};

use crate::{
    c12, gen_types,
    sup::{CheckMeta, PartSpec, Report, Tier, Violation, WorkerCtx},
    universe::{BothVisitor, EnumA, HashVisitor},
    util::{Json, Rng, h64, hex},
    values::{CANON_NAN, Gen},
};

pub fn meta(tier: Tier) -> CheckMeta {
    CheckMeta {
        id: "C13",
        level: "exploration",
        rule: "for every StableHash type of the generated universe: (history) value vs. rebuild() of the \
               value (shuffled insertion order, fresh RandomState, other capacity / shard count, fresh \
               allocation, owned vs borrowed) must hash equally, also after decode(encode(v)); \
               (discrimination) two generated values of one type that are structurally unequal must feed \
               different byte streams to a recording hasher and get different Sip128 hashes; plus a \
               hand-written list of framing pairs; (process) a seeded corpus is hashed in 3 separate child \
               processes and compared. distinct = distinct (type, 128-bit hash); non-trivial = the value fed \
               at least 2 bytes to the hasher.",
        assumptions: vec![
            "float equality = bit equality after NaN normalisation (0.0 and -0.0 are different values)".into(),
            "same binary in all processes; other compilers/targets are not observable here".into(),
            "128-bit collisions are out of scope".into(),
        ],
        parts: {
            let mut parts = vec![PartSpec {
            name: "native",
            nshards: 16,
            budget_s: tier.pick(240, 2400),
            env: vec![],
            program: None,
            prepare: None,
            sanitizer: None,
        }];
            if tier == Tier::Thorough { parts.push(crate::sup::sanitizer_part("miri", 16, tier.pick(900, 2400))); }
            parts
        },
        must_be_nonzero: vec![
            ("unequal_pairs", "no unequal pair generated"),
            ("history_pairs", "no history pair"),
            ("framing_pairs", "framing pairs did not run"),
            ("process_runs", "cross-process comparison did not run"),
        ],
    }
}

/// Records the flat byte stream a value feeds to the hasher. Sub-hashes are
/// computed with real SipHash over (stream so far ++ sub stream), exactly what
/// `Sip128Hasher::sub_hash` does (it clones its state), and enter the parent
/// stream through the caller's `combined.stable_hash(state)`.
#[derive(Default, Clone)]
pub struct Rec {
    pub stream: Vec<u8>,
}

impl StableHasher for Rec {
    type Hash = u128;

    fn finish(&self) -> u128 {
        let mut h = Sip128Hasher::default();
        StableHasher::write(&mut h, &self.stream);
        StableHasher::finish(&h)
    }

    fn write(&mut self, bytes: &[u8]) { self.stream.extend_from_slice(bytes); }

    fn sub_hash(&self, f: &mut dyn FnMut(&mut dyn StableHasher<Hash = u128>)) -> u128 {
        let mut c = self.clone();
        f(&mut c);
        c.finish()
    }
}

pub fn hash_of<T: StableHash + ?Sized>(v: &T, seed: u64) -> u128 {
    let b = SeededStableHasherBuilder::<Sip128Hasher>::new(seed);
    let mut h = b.build_stable_hasher();
    v.stable_hash(&mut h);
    h.finish()
}

pub fn stream_of<T: StableHash + ?Sized>(v: &T) -> Vec<u8> {
    let mut r = Rec::default();
    v.stable_hash(&mut r);
    r.stream
}

struct HV<'a> {
    ctx: &'a WorkerCtx,
    rep: &'a mut Report,
    idx: usize,
    iters: u64,
    rng: Rng,
}

fn viol(ctx: &WorkerCtx, rep: &mut Report, kind: &str, ty: &str, seed: u64, detail: String) {
    ctx.violation(&Violation {
        signature: format!("C13/{kind} type={ty}"),
        what: format!("{kind} for {ty}: {detail}"),
        witness: Json::obj().set("type", ty).set("kind", kind).set("value_seed", seed).set("detail", detail),
    });
    rep.count("violations", 1);
}

impl HashVisitor for HV<'_> {
    fn visit<T: Gen + StableHash>(&mut self, name: &'static str) {
        let i = self.idx;
        self.idx += 1;
        if i % self.ctx.nshards != self.ctx.shard {
            return;
        }
        self.rep.count("types", 1);
        let base = self.rng.derive(h64(name));
        let mut bad = 0;
        for it in 0..self.iters {
            let seed = base.derive(it).next_u64();
            let mut r = Rng::new(seed);
            let d = 1 + (it % 3) as u32;
            let a = T::generate(&mut r, d);
            // history-freedom
            let a2 = a.rebuild(&mut r);
            let (ha, ha2) = (hash_of(&a, 0), hash_of(&a2, 0));
            self.rep.evaluations += 1;
            self.rep.count("history_pairs", 1);
            let sa = stream_of(&a);
            if sa.len() >= 2 && self.rep.distinct.len() < 150_000 {
                self.rep.distinct.insert(h64(&(name, ha)));
            }
            if !a.same(&a2) {
                viol(self.ctx, self.rep, "harness-rebuild-not-equal", name, seed, "rebuild() broke equality (harness bug)".into());
                bad += 1;
            } else if ha != ha2 {
                viol(self.ctx, self.rep, "history-dependent-hash", name, seed, format!("{ha:032x} vs {ha2:032x} for equal values"));
                bad += 1;
            }
            // seeds matter
            if it == 0 && !sa.is_empty() && hash_of(&a, 1) == ha {
                viol(self.ctx, self.rep, "seed-ignored", name, seed, "hash independent of builder seed".into());
            }
            // discrimination
            let b = T::generate(&mut r, d);
            if !a.same(&b) {
                self.rep.count("unequal_pairs", 1);
                self.rep.evaluations += 1;
                let sb = stream_of(&b);
                let hb = hash_of(&b, 0);
                if sa == sb {
                    viol(self.ctx, self.rep, "ambiguous-stream", name, seed, format!("unequal values feed the same {}-byte stream {}", sa.len(), hex(&sa[..sa.len().min(64)])));
                    bad += 1;
                } else if ha == hb {
                    viol(self.ctx, self.rep, "equal-hash-unequal-values", name, seed, format!("{ha:032x}"));
                    bad += 1;
                }
            } else {
                self.rep.count("equal_pairs_by_chance", 1);
                if ha != hash_of(&b, 0) {
                    viol(self.ctx, self.rep, "history-dependent-hash", name, seed, "independently generated equal values hash differently".into());
                    bad += 1;
                }
            }
            if it == 0 {
                self.rep.sample(Json::obj().set("type", name).set("value_seed", seed).set("stream_len", sa.len()).set("hash", format!("{ha:032x}")));
            }
            if bad > 0 {
                break;
            }
        }
    }
}

struct BV<'a> {
    ctx: &'a WorkerCtx,
    rep: &'a mut Report,
    idx: usize,
    iters: u64,
    rng: Rng,
    plugin: qbice_serialize::Plugin,
}

impl BothVisitor for BV<'_> {
    fn visit<T: Gen + StableHash + Encode + Decode>(&mut self, name: &'static str) {
        let i = self.idx;
        self.idx += 1;
        if i % self.ctx.nshards != self.ctx.shard {
            return;
        }
        let base = self.rng.derive(h64(name) ^ 77);
        for it in 0..self.iters {
            let seed = base.derive(it).next_u64();
            let mut r = Rng::new(seed);
            let a = T::generate(&mut r, 1 + (it % 3) as u32);
            let mut buf = Vec::new();
            PostcardEncoder::new(&mut buf).encode(&a, &self.plugin).unwrap();
            let Ok(b) = PostcardDecoder::new(&buf[..]).decode::<T>(&self.plugin) else {
                continue; // C12's business
            };
            self.rep.evaluations += 1;
            self.rep.count("roundtrip_hash_pairs", 1);
            if a.same(&b) && hash_of(&a, 0) != hash_of(&b, 0) {
                viol(self.ctx, self.rep, "hash-changes-across-serialization", name, seed, String::new());
                break;
            }
        }
    }
}

/// Variable-length leaf types: every one of them must be self-delimiting in the
/// hasher stream, whatever follows it. `mk` builds the value whose content is
/// the given ASCII bytes.
trait SeqLike: StableHash + Sized {
    const NAME: &'static str;
    fn mk(b: &[u8]) -> Self;
}
macro_rules! seqlike {
    ($t:ty, $name:expr, |$b:ident| $e:expr) => {
        impl SeqLike for $t {
            const NAME: &'static str = $name;
            fn mk($b: &[u8]) -> Self { $e }
        }
    };
}
fn txt(b: &[u8]) -> String { String::from_utf8(b.to_vec()).unwrap() }
seqlike!(String, "String", |b| txt(b));
seqlike!(Box<str>, "Box<str>", |b| txt(b).into_boxed_str());
seqlike!(std::sync::Arc<str>, "Arc<str>", |b| std::sync::Arc::from(txt(b)));
seqlike!(std::rc::Rc<str>, "Rc<str>", |b| std::rc::Rc::from(txt(b)));
seqlike!(std::borrow::Cow<'static, String>, "Cow<String>", |b| std::borrow::Cow::Owned(txt(b)));
seqlike!(PathBuf, "PathBuf", |b| PathBuf::from(txt(b)));
seqlike!(Box<std::path::Path>, "Box<Path>", |b| PathBuf::from(txt(b)).into_boxed_path());
seqlike!(std::ffi::OsString, "OsString", |b| std::ffi::OsString::from(txt(b)));
seqlike!(Box<std::ffi::OsStr>, "Box<OsStr>", |b| std::ffi::OsString::from(txt(b)).into_boxed_os_str());
seqlike!(std::ffi::CString, "CString", |b| std::ffi::CString::new(b.to_vec()).unwrap());
seqlike!(Box<std::ffi::CStr>, "Box<CStr>", |b| std::ffi::CString::new(b.to_vec()).unwrap().into_boxed_c_str());
seqlike!(Vec<u8>, "Vec<u8>", |b| b.to_vec());
seqlike!(Box<[u8]>, "Box<[u8]>", |b| b.to_vec().into_boxed_slice());
seqlike!(std::sync::Arc<[u8]>, "Arc<[u8]>", |b| std::sync::Arc::from(b.to_vec()));
seqlike!(std::collections::VecDeque<u8>, "VecDeque<u8>", |b| b.iter().copied().collect());
seqlike!(std::collections::LinkedList<u8>, "LinkedList<u8>", |b| b.iter().copied().collect());
seqlike!(std::collections::BTreeSet<u8>, "BTreeSet<u8>", |b| b.iter().copied().collect());
seqlike!(HashSet<u8>, "HashSet<u8>", |b| b.iter().copied().collect());
seqlike!(std::collections::BinaryHeap<u8>, "BinaryHeap<u8>", |b| b.iter().copied().collect());
seqlike!(Vec<String>, "Vec<String>", |b| b.iter().map(|x| txt(&[*x])).collect());
seqlike!(Vec<char>, "Vec<char>", |b| b.iter().map(|x| *x as char).collect());
seqlike!(BTreeMap<u8, u8>, "BTreeMap<u8,u8>", |b| b.iter().map(|x| (*x, *x)).collect());
seqlike!(HashMap<u8, u8>, "HashMap<u8,u8>", |b| b.iter().map(|x| (*x, *x)).collect());

fn framing_for<L: SeqLike>(ctx: &WorkerCtx, rep: &mut Report) {
    fn pair<T: StableHash>(ctx: &WorkerCtx, rep: &mut Report, what: String, a: &T, b: &T) {
        rep.count("framing_pairs", 1);
        rep.count("generic_framing_pairs", 1);
        rep.evaluations += 1;
        let (sa, sb) = (stream_of(a), stream_of(b));
        if sa == sb {
            viol(ctx, rep, "ambiguous-stream", &what, 0, format!("two unequal values feed the identical stream {}", hex(&sa)));
        } else if hash_of(a, 0) == hash_of(b, 0) {
            viol(ctx, rep, "equal-hash-unequal-values", &what, 0, "framing pair".into());
        }
        rep.distinct.insert(h64(&(&what, hash_of(a, 0))));
    }
    let n = L::NAME;
    let m = L::mk;
    // the boundary between two adjacent values moves: ab|c vs a|bc, and the empty cases
    pair(ctx, rep, format!("({n},{n}) ab|c vs a|bc"), &(m(b"ab"), m(b"c")), &(m(b"a"), m(b"bc")));
    pair(ctx, rep, format!("({n},{n}) ''|a vs a|''"), &(m(b""), m(b"a")), &(m(b"a"), m(b"")));
    pair(ctx, rep, format!("Vec<{n}> [ab,c] vs [a,bc]"), &vec![m(b"ab"), m(b"c")], &vec![m(b"a"), m(b"bc")]);
    pair(ctx, rep, format!("Vec<{n}> [a,b] vs [ab]"), &vec![m(b"a"), m(b"b")], &vec![m(b"ab")]);
    pair(ctx, rep, format!("Vec<{n}> [''] vs []"), &vec![m(b"")], &Vec::<L>::new());
    pair(ctx, rep, format!("[{n};2] ab|c vs a|bc"), &[m(b"ab"), m(b"c")], &[m(b"a"), m(b"bc")]);
    pair(ctx, rep, format!("({n},String) ab|c vs a|bc"), &(m(b"ab"), txt(b"c")), &(m(b"a"), txt(b"bc")));
    pair(ctx, rep, format!("(String,{n}) ab|c vs a|bc"), &(txt(b"ab"), m(b"c")), &(txt(b"a"), m(b"bc")));
    pair(ctx, rep, format!("({n},Vec<u8>) ab|c vs a|bc"), &(m(b"ab"), b"c".to_vec()), &(m(b"a"), b"bc".to_vec()));
    pair(ctx, rep, format!("Option<({n},{n})> ab|c vs a|bc"), &Some((m(b"ab"), m(b"c"))), &Some((m(b"a"), m(b"bc"))));
    pair(ctx, rep, format!("Vec<Option<{n}>> [Some(''),None] vs [None,Some('')]"), &vec![Some(m(b"")), None], &vec![None, Some(m(b""))]);
}

fn generic_framing(ctx: &WorkerCtx, rep: &mut Report) {
    framing_for::<String>(ctx, rep);
    framing_for::<Box<str>>(ctx, rep);
    framing_for::<std::sync::Arc<str>>(ctx, rep);
    framing_for::<std::rc::Rc<str>>(ctx, rep);
    framing_for::<std::borrow::Cow<'static, String>>(ctx, rep);
    framing_for::<PathBuf>(ctx, rep);
    framing_for::<Box<std::path::Path>>(ctx, rep);
    framing_for::<std::ffi::OsString>(ctx, rep);
    framing_for::<Box<std::ffi::OsStr>>(ctx, rep);
    framing_for::<std::ffi::CString>(ctx, rep);
    framing_for::<Box<std::ffi::CStr>>(ctx, rep);
    framing_for::<Vec<u8>>(ctx, rep);
    framing_for::<Box<[u8]>>(ctx, rep);
    framing_for::<std::sync::Arc<[u8]>>(ctx, rep);
    framing_for::<std::collections::VecDeque<u8>>(ctx, rep);
    framing_for::<std::collections::LinkedList<u8>>(ctx, rep);
    framing_for::<std::collections::BTreeSet<u8>>(ctx, rep);
    framing_for::<HashSet<u8>>(ctx, rep);
    framing_for::<std::collections::BinaryHeap<u8>>(ctx, rep);
    framing_for::<Vec<String>>(ctx, rep);
    framing_for::<Vec<char>>(ctx, rep);
    framing_for::<BTreeMap<u8, u8>>(ctx, rep);
    framing_for::<HashMap<u8, u8>>(ctx, rep);
}

fn framing_pairs(ctx: &WorkerCtx, rep: &mut Report) {
    generic_framing(ctx, rep);
    fn pair<T: StableHash>(ctx: &WorkerCtx, rep: &mut Report, what: &str, a: &T, b: &T) {
        rep.count("framing_pairs", 1);
        rep.evaluations += 1;
        let (sa, sb) = (stream_of(a), stream_of(b));
        if sa == sb {
            viol(ctx, rep, "ambiguous-stream", what, 0, format!("framing pair feeds identical stream {}", hex(&sa)));
        } else if hash_of(a, 0) == hash_of(b, 0) {
            viol(ctx, rep, "equal-hash-unequal-values", what, 0, "framing pair".into());
        }
        rep.distinct.insert(h64(&(what, hash_of(a, 0))));
    }
    let s = |x: &str| x.to_string();
    pair(ctx, rep, "(String,String) ab|c vs a|bc", &(s("ab"), s("c")), &(s("a"), s("bc")));
    pair(ctx, rep, "(String,String) ''|x vs x|''", &(s(""), s("x")), &(s("x"), s("")));
    pair(ctx, rep, "Vec<Vec<u8>> [[1],[]] vs [[],[1]]", &vec![vec![1u8], vec![]], &vec![vec![], vec![1u8]]);
    pair(ctx, rep, "Vec<Vec<u8>> [[],[]] vs [[]]", &vec![Vec::<u8>::new(), vec![]], &vec![Vec::<u8>::new()]);
    pair(ctx, rep, "Vec<String> [a,b] vs [ab]", &vec![s("a"), s("b")], &vec![s("ab")]);
    pair(ctx, rep, "Option<Option<u8>> Some(None) vs None", &Some(None::<u8>), &None::<Option<u8>>);
    pair(ctx, rep, "Option<Vec<u8>> Some([]) vs None", &Some(Vec::<u8>::new()), &None::<Vec<u8>>);
    pair(ctx, rep, "Option<u8> Some(0) vs None", &Some(0u8), &None::<u8>);
    pair(ctx, rep, "Result<u8,u8> Ok(1) vs Err(1)", &Ok::<u8, u8>(1), &Err::<u8, u8>(1));
    pair(ctx, rep, "EnumA Tuple vs Other same payload", &EnumA::Tuple(1, s("x")), &EnumA::Other(1, s("x")));
    pair(ctx, rep, "EnumA Unit vs Nested(None)", &EnumA::Unit, &EnumA::Nested(None));
    pair(ctx, rep, "(u8,u16) (0,256) vs (1,0)", &(0u8, 256u16), &(1u8, 0u16));
    pair(ctx, rep, "(u16,u8) (1,0) vs (0,1)", &(1u16, 0u8), &(0u16, 1u8));
    pair(ctx, rep, "(Vec<u8>,Vec<u8>) [1]|[] vs []|[1]", &(vec![1u8], Vec::<u8>::new()), &(Vec::<u8>::new(), vec![1u8]));
    let m1: HashMap<u8, String> = [(1, s("a")), (2, s("b"))].into_iter().collect();
    let m2: HashMap<u8, String> = [(1, s("b")), (2, s("a"))].into_iter().collect();
    pair(ctx, rep, "HashMap<u8,String> values swapped between keys", &m1, &m2);
    let b1: BTreeMap<u8, Vec<u8>> = [(1, vec![1]), (2, vec![])].into_iter().collect();
    let b2: BTreeMap<u8, Vec<u8>> = [(1, vec![]), (2, vec![1])].into_iter().collect();
    pair(ctx, rep, "BTreeMap<u8,Vec<u8>> value moved between keys", &b1, &b2);
    let h1: HashSet<Vec<u8>> = [vec![1], vec![2]].into_iter().collect();
    let h2: HashSet<Vec<u8>> = [vec![1, 2], vec![]].into_iter().collect();
    pair(ctx, rep, "HashSet<Vec<u8>> {[1],[2]} vs {[1,2],[]}", &h1, &h2);
    let h3: HashSet<u8> = [1, 2].into_iter().collect();
    let h4: HashSet<u8> = [3].into_iter().collect();
    pair(ctx, rep, "HashSet<u8> {1,2} vs {3}", &h3, &h4);
    let hm1: HashMap<String, String> = [(s("ab"), s("c"))].into_iter().collect();
    let hm2: HashMap<String, String> = [(s("a"), s("bc"))].into_iter().collect();
    pair(ctx, rep, "HashMap<String,String> {ab:c} vs {a:bc}", &hm1, &hm2);
    pair(ctx, rep, "PathBuf a/b vs a", &PathBuf::from("a/b"), &PathBuf::from("a"));
    pair(ctx, rep, "[String;2] [a,''] vs ['',a]", &[s("a"), s("")], &[s(""), s("a")]);
    pair(ctx, rep, "f64 0.0 vs -0.0", &0.0f64, &-0.0f64);
    pair(ctx, rep, "(bool,u8) (true,0) vs (false,1)", &(true, 0u8), &(false, 1u8));
    pair(ctx, rep, "char a vs u32-equal neighbour", &'a', &'b');
    // equal-by-contract pairs: must hash equally
    let eq = |rep: &mut Report, what: &str, ha: u128, hb: u128| {
        rep.count("contract_equal_pairs", 1);
        rep.evaluations += 1;
        if ha != hb {
            viol(ctx, rep, "history-dependent-hash", what, 0, "representations of one value hash differently".into());
        }
    };
    eq(rep, "String vs str", hash_of(&s("héllo"), 0), hash_of("héllo", 0));
    eq(rep, "Vec vs slice", hash_of(&vec![1u8, 2, 3], 0), hash_of(&[1u8, 2, 3][..], 0));
    eq(rep, "array vs slice", hash_of(&[1u8, 2, 3], 0), hash_of(&[1u8, 2, 3][..], 0));
    eq(rep, "Box<T> vs T", hash_of(&Box::new(5u32), 0), hash_of(&5u32, 0));
    eq(rep, "Arc<str> vs str", hash_of(&std::sync::Arc::<str>::from("q"), 0), hash_of("q", 0));
    eq(rep, "&T vs T", hash_of(&&7u64, 0), hash_of(&7u64, 0));
    eq(rep, "NaN payloads", hash_of(&f64::from_bits(0x7ff8_0000_0000_0001), 0), hash_of(&f64::NAN, 0));
    eq(rep, "Cow borrowed vs owned", hash_of(&std::borrow::Cow::<u32>::Borrowed(&9), 0), hash_of(&std::borrow::Cow::<u32>::Owned(9), 0));
    // all permutations of a 5-entry map
    let entries: Vec<(u8, String)> = (0..5).map(|i| (i, format!("v{i}"))).collect();
    let mut idx: Vec<usize> = (0..5).collect();
    let mut first = None;
    let mut perms = 0;
    permute(&mut idx, 0, &mut |p| {
        let m: HashMap<u8, String> = p.iter().map(|&i| entries[i].clone()).collect();
        let h = hash_of(&m, 0);
        perms += 1;
        match first {
            None => first = Some(h),
            Some(f) => {
                if f != h {
                    viol(ctx, rep, "history-dependent-hash", "HashMap<u8,String> permutation", 0, format!("{p:?}"));
                }
            }
        }
    });
    rep.count("map_permutations", perms);
    rep.evaluations += perms;
}

fn permute(v: &mut Vec<usize>, k: usize, f: &mut dyn FnMut(&[usize])) {
    if k == v.len() {
        f(v);
        return;
    }
    for i in k..v.len() {
        v.swap(k, i);
        permute(v, k + 1, f);
        v.swap(k, i);
    }
}

struct CorpusV {
    out: Vec<String>,
    rng: Rng,
    idx: usize,
}
impl HashVisitor for CorpusV {
    fn visit<T: Gen + StableHash>(&mut self, name: &'static str) {
        self.idx += 1;
        if self.idx % 4 != 0 {
            return;
        }
        let base = self.rng.derive(h64(name));
        for it in 0..4u64 {
            let mut r = Rng::new(base.derive(it).next_u64());
            let v = T::generate(&mut r, 2);
            self.out.push(format!("{name}#{it} {:032x}", hash_of(&v, 42)));
        }
    }
}

/// `qv hash-child <seed>`: print the hashes of a seeded corpus.
pub fn hash_child(seed: u64) {
    CANON_NAN.with(|c| c.set(true));
    let mut v = CorpusV { out: vec![], rng: Rng::new(seed).derive(1313), idx: 0 };
    gen_types::visit_hash_types(&mut v);
    println!("{}", v.out.join("\n"));
}

fn cross_process(ctx: &WorkerCtx, rep: &mut Report) {
    let exe = std::env::current_exe().unwrap();
    let mut outs = Vec::new();
    for _ in 0..3 {
        let o = Command::new(&exe).arg("hash-child").arg(ctx.seed.to_string()).output();
        match o {
            Ok(o) if o.status.success() => outs.push(String::from_utf8_lossy(&o.stdout).to_string()),
            _ => {
                rep.inconclusive.push("hash-child failed to run".into());
                return;
            }
        }
        rep.count("process_runs", 1);
    }
    let lines = outs[0].lines().count() as u64;
    rep.count("process_corpus_values", lines);
    rep.evaluations += lines * 3;
    for k in 1..3 {
        if outs[k] != outs[0] {
            let diff = outs[0].lines().zip(outs[k].lines()).find(|(a, b)| a != b);
            viol(ctx, rep, "hash-differs-across-processes", diff.map_or("?", |d| d.0.split(' ').next().unwrap_or("?")), ctx.seed, format!("{diff:?}"));
        }
    }
}

pub fn worker(ctx: &WorkerCtx) -> Report {
    let mut rep = Report::default();
    CANON_NAN.with(|c| c.set(true));
    if ctx.shard == 0 {
        ctx.announce("framing pairs");
        framing_pairs(ctx, &mut rep);
        if ctx.part != "miri" {
            ctx.announce("cross process");
            cross_process(ctx, &mut rep);
        }
    }
    let iters = if ctx.part == "miri" { 1 } else { ctx.pick(2000, 40_000) };
    ctx.announce("hash universe");
    let mut v = HV { ctx, rep: &mut rep, idx: 0, iters, rng: Rng::new(ctx.seed).derive(13) };
    gen_types::visit_hash_types(&mut v);
    ctx.announce("roundtrip hash");
    let mut b = BV { ctx, rep: &mut rep, idx: 0, iters: iters / 4 + 1, rng: Rng::new(ctx.seed).derive(14), plugin: c12::plugin() };
    gen_types::visit_both_types(&mut b);
    rep
}
