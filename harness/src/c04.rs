//! C04 - input sessions are atomic and readers see one input snapshot.

use std::{
    collections::HashMap,
    future::Future,
    pin::Pin,
    sync::{
        Arc,
        atomic::{AtomicBool, AtomicU64, Ordering},
    },
    task::{Context, Poll},
};

use parking_lot::Mutex;
use qbice::engine::YieldFrequency;

use crate::{
    c01::{BackendSpec, pick_cfg},
    eng::{Backend, MemBackend, open_engine, query_node, shutdown},
    hooks::{self, PointPolicy, YieldPolicy},
    model::{Combine, Eval, ExecCtx, In, Kind, NodeId, NodeSpec, Op, Program, nid},
    sup::{CheckMeta, PartSpec, Report, Tier, Violation, WorkerCtx},
    util::{Json, Rng, h64},
};

pub fn meta(tier: Tier) -> CheckMeta {
    CheckMeta {
        id: "C04",
        level: "exploration",
        rule: "one writer task runs sessions k = 1..K, each writing k into every input (commit or drop chosen per \
               session); 1-8 reader tasks create tracked engines, query inputs and derived nodes (all injective \
               functions of k, behind a firewall and a projection too) and drop them; events are stamped by one \
               sequence clock at the client boundary. Oracle per tracked engine: all values it ever returned \
               belong to ONE k; k >= #sessions whose commit returned before tracked() was called; k <= #sessions \
               whose input_session() call was issued before tracked() returned; k monotone along real time; a \
               fresh reader after the last commit sees K. Schedules: current_thread runtime with seeded yields \
               at the sync.rs hook sites (and all other async sites), tokio coop-budget starvation of the \
               tracked()/input_session() calls (hook-free), multi-thread runtime with delays. distinct = distinct \
               interleaving trace hashes (single-thread) / round configs; non-trivial = a reader obtained an \
               engine while a session call was in flight.",
        assumptions: vec![
            "a single writer (concurrent sessions are documented as unsupported)".into(),
            "reader tasks never wait for each other while holding an engine (harness-made deadlocks excluded)".into(),
            "progress is decided by the supervisor's quiescence watchdog".into(),
        ],
        parts: {
            let mut parts = vec![PartSpec { name: "native", nshards: 16, budget_s: tier.pick(300, 2400), env: vec![], program: None, prepare: None, sanitizer: None }];
            if tier == Tier::Thorough { parts.push(crate::sup::sanitizer_part("tsan", 8, 2400)); }
            parts
        },
        must_be_nonzero: vec![
            ("hook_hits_sync_sites", "sync.rs yield sites never reached"),
            ("readers_overlapping_session_call", "no reader ever overlapped a session call"),
        ],
    }
}

/// Burns the tokio coop budget before every poll of the inner future, so the
/// first coop-aware operation inside (RwLock acquisition, JoinHandle poll)
/// genuinely returns `Pending` - a suspension point tokio itself produces.
pub struct Starved<F> {
    pub inner: Pin<Box<F>>,
    pub on: bool,
}

impl<F: Future> Future for Starved<F> {
    type Output = F::Output;

    fn poll(mut self: Pin<&mut Self>, cx: &mut Context<'_>) -> Poll<F::Output> {
        if self.on {
            // only the first poll is starved: starving every poll would never
            // let a coop-aware operation inside make progress
            self.on = false;
            let mut guard = 0;
            while tokio::task::coop::has_budget_remaining() && guard < 200 {
                let mut f = std::pin::pin!(tokio::task::coop::consume_budget());
                if f.as_mut().poll(cx).is_pending() {
                    break;
                }
                guard += 1;
            }
        }
        self.inner.as_mut().poll(cx)
    }
}

pub fn starved<F: Future>(f: F, on: bool) -> Starved<F> { Starved { inner: Box::pin(f), on } }

pub fn c04_program(r: &mut Rng, m: u32) -> (Program, Vec<NodeId>) {
    let mut p = Program::default();
    let rd = Op::Read;
    let all: Vec<NodeId> = (0..m).map(|i| nid(Kind::In, i)).collect();
    p.nodes.insert(nid(Kind::N, 0), NodeSpec { ops: vec![if r.chance(1, 2) { Op::Join(all.clone()) } else { Op::Unordered(all.clone()) }], combine: Combine::Sum });
    p.nodes.insert(nid(Kind::F, 0), NodeSpec { ops: vec![rd(nid(Kind::In, 0)), rd(nid(Kind::In, 1))], combine: Combine::SumPlus(7) });
    p.nodes.insert(nid(Kind::P, 0), NodeSpec { ops: vec![rd(nid(Kind::F, 0))], combine: Combine::Scale(3, 1) });
    p.nodes.insert(nid(Kind::N, 1), NodeSpec { ops: vec![rd(nid(Kind::P, 0)), rd(nid(Kind::In, m - 1))], combine: Combine::Sum });
    p.nodes.insert(nid(Kind::N, 2), NodeSpec { ops: vec![rd(nid(Kind::N, 1))], combine: Combine::Scale(1000, 5) });
    p.nodes.insert(nid(Kind::N, 3), NodeSpec { ops: vec![rd(nid(Kind::N, 0)), rd(nid(Kind::N, 2))], combine: Combine::Sum });
    let mut nodes: Vec<NodeId> = p.nodes.keys().copied().collect();
    nodes.extend(all);
    (p, nodes)
}

#[derive(Clone, Debug)]
enum Ev {
    SessionCall(u64),
    SessionReturn(u64),
    /// commit() returned (session k is complete)
    CommitReturn(u64),
    /// session k was dropped (its commit completes asynchronously)
    DropSession(u64),
    TrackedCall(u64),
    TrackedReturn(u64),
    Value(u64, NodeId, i64),
    DropTracked(u64),
}

struct Log {
    seq: AtomicU64,
    evs: Mutex<Vec<(u64, Ev)>>,
}

impl Log {
    fn push(&self, e: Ev) {
        let s = self.seq.fetch_add(1, Ordering::SeqCst);
        self.evs.lock().push((s, e));
    }
}

pub struct RoundCfg {
    pub workers: usize,
    pub readers: usize,
    pub sessions: u64,
    pub inputs: u32,
    pub starve: bool,
    pub yield_num: u64,
    pub delay: bool,
}

pub struct RoundResult {
    pub violations: Vec<(String, Json)>,
    pub overlapping: u64,
    pub tracked: u64,
    pub trace: u64,
}

fn check_history(evs: &[(u64, Ev)], expected: &HashMap<(NodeId, u64), i64>, nodes: &[NodeId], k_max: u64) -> (Vec<(String, Json)>, u64, u64) {
    let mut viol = Vec::new();
    // per session: call / return / complete seq
    let mut s_call: HashMap<u64, u64> = HashMap::new();
    let mut s_done: HashMap<u64, u64> = HashMap::new(); // seq at which session k is known complete
    let mut t_call: HashMap<u64, u64> = HashMap::new();
    let mut t_ret: HashMap<u64, u64> = HashMap::new();
    let mut vals: HashMap<u64, Vec<(NodeId, i64)>> = HashMap::new();
    for (s, e) in evs {
        match e {
            Ev::SessionCall(k) => {
                s_call.insert(*k, *s);
            }
            Ev::SessionReturn(k) => {
                // opening session k implies every earlier (possibly dropped)
                // session has completed its commit
                for j in 1..*k {
                    s_done.entry(j).or_insert(*s);
                }
            }
            Ev::CommitReturn(k) => {
                s_done.entry(*k).or_insert(*s);
            }
            Ev::DropSession(k) => {
                // the write guard stays held until the spawned commit is done,
                // so any tracked() issued after the drop is handed out after it
                s_done.entry(*k).or_insert(*s);
            }
            Ev::TrackedCall(t) => {
                t_call.insert(*t, *s);
            }
            Ev::TrackedReturn(t) => {
                t_ret.insert(*t, *s);
            }
            Ev::Value(t, n, v) => vals.entry(*t).or_default().push((*n, *v)),
            Ev::DropTracked(_) => {}
        }
    }
    let mut kt: Vec<(u64, u64, u64, u64)> = Vec::new(); // (tracked_return, tracked_call, k, t)
    let mut overlapping = 0;
    for (t, obs) in &vals {
        let (Some(tc), Some(tr)) = (t_call.get(t), t_ret.get(t)) else { continue };
        // candidate ks
        let mut cands: Vec<u64> = (0..=k_max).collect();
        for (n, v) in obs {
            cands.retain(|k| expected.get(&(*n, *k)) == Some(v));
        }
        if cands.is_empty() {
            let per: Vec<String> = obs
                .iter()
                .map(|(n, v)| {
                    let ks: Vec<u64> = (0..=k_max).filter(|k| expected.get(&(*n, *k)) == Some(v)).collect();
                    format!("{n:?}={v} (sessions {ks:?})")
                })
                .collect();
            viol.push(("mixed-snapshot".to_string(), Json::obj().set("tracked_engine", *t).set("observations", Json::Arr(per.into_iter().map(Json::Str).collect()))));
            continue;
        }
        let lower = (1..=k_max).filter(|k| s_done.get(k).is_some_and(|d| d < tc)).max().unwrap_or(0);
        let upper = (1..=k_max).filter(|k| s_call.get(k).is_some_and(|c| c < tr)).max().unwrap_or(0);
        if (1..=k_max).any(|k| s_call.get(&k).is_some_and(|c| c < tr) && s_done.get(&k).is_none_or(|d| d > tc)) {
            overlapping += 1;
        }
        let k = cands[0];
        if k < lower {
            viol.push(("stale-snapshot".into(), Json::obj().set("tracked_engine", *t).set("saw_session", k).set("sessions_completed_before_tracked_call", lower)));
        } else if k > upper {
            viol.push(("future-snapshot".into(), Json::obj().set("tracked_engine", *t).set("saw_session", k).set("sessions_started_before_tracked_return", upper)));
        }
        kt.push((*tr, *tc, k, *t));
    }
    kt.sort_unstable();
    // monotone along real time: TrackedReturn(a) < TrackedCall(b) => k_a <= k_b
    let mut best: Option<(u64, u64, u64)> = None; // (max k so far among engines returned, its return seq, t)
    let mut by_call = kt.clone();
    by_call.sort_unstable_by_key(|x| x.1);
    let mut i = 0;
    for (_tr_b, tc_b, k_b, t_b) in &by_call {
        while i < kt.len() && kt[i].0 < *tc_b {
            if best.is_none_or(|b| kt[i].2 > b.0) {
                best = Some((kt[i].2, kt[i].0, kt[i].3));
            }
            i += 1;
        }
        if let Some((k_a, _, t_a)) = best {
            if k_a > *k_b {
                viol.push(("snapshot-went-backwards".into(), Json::obj().set("earlier_engine", t_a).set("earlier_saw", k_a).set("later_engine", *t_b).set("later_saw", *k_b)));
            }
        }
    }
    let _ = nodes;
    (viol, overlapping, vals.len() as u64)
}

pub fn round<B: Backend>(b: &B, rc: &RoundCfg, seed: u64) -> RoundResult {
    let mut r = Rng::new(seed);
    let (prog, nodes) = c04_program(&mut r, rc.inputs);
    let prog = Arc::new(prog);
    // expected value of every node for every k
    let mut expected: HashMap<(NodeId, u64), i64> = HashMap::new();
    for k in 0..=rc.sessions {
        let inputs: HashMap<u32, i64> = (0..rc.inputs).map(|i| (i, k as i64)).collect();
        let mut xcap = HashMap::new();
        let cells = HashMap::new();
        let mut ev = Eval::new(&prog, &inputs, &mut xcap, &cells, false);
        for n in &nodes {
            let v = ev.eval(*n);
            expected.insert((*n, k), v);
        }
    }
    let rt = if rc.workers == 0 {
        tokio::runtime::Builder::new_current_thread().enable_all().build().unwrap()
    } else {
        tokio::runtime::Builder::new_multi_thread().worker_threads(rc.workers).enable_all().build().unwrap()
    };
    if rc.yield_num > 0 {
        hooks::set_yield(YieldPolicy::Prob { num: rc.yield_num, den: 8, prefixes: vec![] }, seed);
    } else {
        hooks::set_yield(YieldPolicy::Off, seed);
    }
    if rc.delay {
        hooks::set_point(PointPolicy::Delay { max_us: 40, num: 1, den: 8 });
    }
    let log = Arc::new(Log { seq: AtomicU64::new(0), evs: Mutex::new(Vec::new()) });
    let mut final_viol = Vec::new();
    rt.block_on(async {
        let ctx = ExecCtx::new(prog.clone());
        let engine = open_engine(b, &ctx, YieldFrequency::Never).await.expect("open");
        // session 0: everything = 0 (not part of the checked history)
        {
            let mut s = engine.input_session().await;
            for i in 0..rc.inputs {
                s.set_input(In(i), 0).await;
            }
            s.commit().await;
        }
        let done = Arc::new(AtomicBool::new(false));
        let next_t = Arc::new(AtomicU64::new(1));
        let mut hs = Vec::new();
        // writer
        {
            let engine = engine.clone();
            let log = log.clone();
            let done = done.clone();
            let (sessions, inputs, starve) = (rc.sessions, rc.inputs, rc.starve);
            let mut wr = r.derive(1);
            hs.push(tokio::spawn(async move {
                for k in 1..=sessions {
                    log.push(Ev::SessionCall(k));
                    let mut s = starved(engine.input_session(), starve && wr.chance(1, 2)).await;
                    log.push(Ev::SessionReturn(k));
                    for i in 0..inputs {
                        s.set_input(In(i), k as i64).await;
                        if wr.chance(1, 4) {
                            tokio::task::yield_now().await;
                        }
                    }
                    if wr.chance(2, 3) {
                        s.commit().await;
                        log.push(Ev::CommitReturn(k));
                    } else {
                        log.push(Ev::DropSession(k));
                        drop(s);
                    }
                    for _ in 0..wr.below(3) {
                        tokio::task::yield_now().await;
                    }
                }
                done.store(true, Ordering::SeqCst);
            }));
        }
        for rd in 0..rc.readers {
            let engine = engine.clone();
            let log = log.clone();
            let done = done.clone();
            let next_t = next_t.clone();
            let nodes = nodes.clone();
            let starve = rc.starve;
            let mut rr = r.derive(100 + rd as u64);
            hs.push(tokio::spawn(async move {
                let mut rounds = 0;
                loop {
                    let finished = done.load(Ordering::SeqCst);
                    let t = next_t.fetch_add(1, Ordering::SeqCst);
                    log.push(Ev::TrackedCall(t));
                    let te = starved(engine.clone().tracked(), starve && rr.chance(1, 2)).await;
                    log.push(Ev::TrackedReturn(t));
                    let nq = 1 + rr.usize_below(4);
                    for _ in 0..nq {
                        let n = *rr.pick(&nodes);
                        let v = query_node(&te, n).await;
                        log.push(Ev::Value(t, n, v));
                        if rr.chance(1, 3) {
                            tokio::task::yield_now().await;
                        }
                    }
                    log.push(Ev::DropTracked(t));
                    drop(te);
                    rounds += 1;
                    if finished || rounds > 4000 {
                        break;
                    }
                    for _ in 0..rr.below(3) {
                        tokio::task::yield_now().await;
                    }
                }
            }));
        }
        for h in hs {
            if let Err(e) = h.await {
                final_viol.push(("task-failed".to_string(), Json::obj().set("error", e.to_string())));
            }
        }
        // a fresh reader after everything must see K
        let te = engine.clone().tracked().await;
        for n in &nodes {
            let v = query_node(&te, *n).await;
            let e = expected[&(*n, rc.sessions)];
            if v != e {
                final_viol.push((
                    "final-reader-does-not-see-last-session".into(),
                    Json::obj().set("node", format!("{n:?}")).set("got", v).set("expected_for_last_session", e).set("sessions", rc.sessions),
                ));
            }
        }
        drop(te);
        if !shutdown(engine).await {
            final_viol.push(("engine-not-released".into(), Json::Null));
        }
    });
    let trace = hooks::trace_hash();
    hooks::set_yield(YieldPolicy::Off, 0);
    hooks::set_point(PointPolicy::Off);
    rt.shutdown_timeout(std::time::Duration::from_secs(2));
    let evs = log.evs.lock().clone();
    let (mut viol, overlapping, tracked) = check_history(&evs, &expected, &nodes, rc.sessions);
    viol.extend(final_viol.into_iter().filter(|v| v.0 != "engine-not-released"));
    RoundResult { violations: viol, overlapping, tracked, trace }
}

pub fn worker(ctx: &WorkerCtx) -> Report {
    hooks::install();
    let mut rep = Report::default();
    let base = Rng::new(ctx.seed).derive(400 + ctx.shard as u64);
    let n: u64 = ctx.pick(800, 20_000);
    let mut seen = std::collections::HashSet::new();
    for i in 0..n {
        let mut r = base.derive(i);
        let workers = *r.pick(&[0usize, 0, 0, 2, 4]);
        let rc = RoundCfg {
            workers,
            readers: 1 + r.usize_below(if workers == 0 { 4 } else { 8 }),
            sessions: 5 + r.below(ctx.pick(25, 60)),
            inputs: 2 + r.below(4) as u32,
            starve: r.chance(1, 3),
            yield_num: *r.pick(&[0u64, 1, 2, 4]),
            delay: workers > 0 && r.chance(1, 2),
        };
        let (_, spec) = pick_cfg(&mut r);
        let case = format!("C04 round {i} workers={} readers={} sessions={} starve={} yield={}/8 backend={spec:?}", rc.workers, rc.readers, rc.sessions, rc.starve, rc.yield_num);
        ctx.announce(&case);
        let seed = r.next_u64();
        let res = match &spec {
            BackendSpec::Mem => round(&MemBackend, &rc, seed),
            s => round(&s.rec().unwrap(), &rc, seed),
        };
        rep.evaluations += 1;
        rep.count("tracked_engines_checked", res.tracked);
        rep.count("readers_overlapping_session_call", res.overlapping);
        if res.overlapping > 0 {
            rep.distinct.insert(if rc.workers == 0 { res.trace } else { h64(&(&case, seed)) });
        }
        if i == 0 {
            rep.sample(Json::obj().set("case", case.as_str()).set("tracked_engines", res.tracked).set("overlapping", res.overlapping));
        }
        for (kind, d) in res.violations {
            let sig = format!("C04/{kind}");
            if seen.insert(sig.clone()) {
                ctx.violation(&Violation {
                    signature: sig,
                    what: format!("{kind}: {}", d.render()),
                    witness: Json::obj().set("case", case.as_str()).set("round_seed", seed).set("detail", d),
                });
            } else {
                rep.count("repeat_violations_same_signature", 1);
            }
        }
    }
    let hits = hooks::hits();
    let sync_hits: u64 = hits.iter().filter(|(k, _)| k.contains("sync:")).map(|(_, v)| *v).sum();
    rep.count("hook_hits_sync_sites", sync_hits);
    for (k, v) in hits {
        rep.count(&format!("hook:{k}"), v);
    }
    rep
}
