//! C11 - store backends honour the key-value contract and isolate keys.
//! Real RocksDB and Fjall through the `KvDatabase` trait.

#![cfg(any(feature = "rocksdb", feature = "fjall"))]

use std::{
    collections::{BTreeMap, BTreeSet, HashMap},
    path::{Path, PathBuf},
    sync::{
        Arc,
        atomic::{AtomicBool, AtomicU64, Ordering},
    },
};

use qbice::{Decode, Encode, Identifiable};
use qbice_serialize::Plugin;
use qbice_storage::kv_database::{
    DiscriminantEncoding, KeyOfSetColumn, KvDatabase, SerializationBuffer, WideColumn,
    WideColumnValue, WriteBatch,
};

use crate::{
    sup::{self, CheckMeta, PartSpec, Report, Tier, Violation, WorkerCtx},
    util::{Json, Rng, h64, hex},
};

pub fn meta(tier: Tier) -> CheckMeta {
    CheckMeta {
        id: "C11",
        level: "exploration",
        rule: "both shipped backends (RocksDB, Fjall) through the KvDatabase trait: random histories of batches \
               (put / delete / insert_member / delete_member, directly and through a SerializationBuffer) over 6 \
               wide columns (prefixed and suffixed discriminants whose encodings are prefixes of one another, key \
               types Vec<u8>, String, (Vec<u8>,Vec<u8>), (), u128, u8) and 4 key-of-set columns, with adversarial \
               byte strings (empty, 0x00, 0xFF runs, k and k||suffix pairs, successor stems, lengths across the \
               127/128 varint boundary, multi-kilobyte); reads before commit (batch invisible), after commit and \
               after close + reopen are compared with a BTreeMap model; a marker test checks that a batch takes \
               effect as a whole (a reader pass never sees a newer marker followed by an older one). distinct = \
               hash(backend, history); non-trivial = history containing at least one prefix-related key pair and \
               one reopen.",
        assumptions: vec!["torn writes inside one backend commit are trusted to the backend's atomic batch; sampled, not exhausted".into()],
        parts: vec![PartSpec { name: "native", nshards: 8, budget_s: tier.pick(400, 3000), env: vec![], program: None, prepare: None, sanitizer: None }],
        must_be_nonzero: vec![("reopens", "no reopen"), ("reads_after_commit", "no read"), ("marker_passes", "atomicity marker test did not run")],
    }
}

// ---- columns -----------------------------------------------------------------

macro_rules! wide_col {
    ($n:ident, $key:ty, $enc:expr) => {
        #[derive(Debug, Clone, Copy, Identifiable)]
        pub struct $n;
        impl WideColumn for $n {
            type Key = $key;
            type Discriminant = u16;
            fn discriminant_encoding() -> DiscriminantEncoding { $enc }
        }
        impl WideColumnValue<$n> for VA {
            fn discriminant() -> u16 { 1 }
        }
        impl WideColumnValue<$n> for VB {
            fn discriminant() -> u16 { 129 }
        }
        impl WideColumnValue<$n> for VC {
            fn discriminant() -> u16 { 16384 }
        }
    };
}

#[derive(Debug, Clone, PartialEq, Eq, Encode, Decode)]
pub struct VA(pub Vec<u8>);
#[derive(Debug, Clone, PartialEq, Eq, Encode, Decode)]
pub struct VB(pub u64);
#[derive(Debug, Clone, PartialEq, Eq, Encode, Decode)]
pub struct VC(pub String);

wide_col!(WpBytes, Vec<u8>, DiscriminantEncoding::Prefixed);
wide_col!(WsBytes, Vec<u8>, DiscriminantEncoding::Suffixed);
wide_col!(WpStr, String, DiscriminantEncoding::Prefixed);
wide_col!(WsPair, (Vec<u8>, Vec<u8>), DiscriminantEncoding::Suffixed);
wide_col!(WpUnit, (), DiscriminantEncoding::Prefixed);
wide_col!(WsU128, u128, DiscriminantEncoding::Suffixed);
wide_col!(WpU8, u8, DiscriminantEncoding::Prefixed);

macro_rules! set_col {
    ($n:ident, $key:ty, $el:ty) => {
        #[derive(Debug, Clone, Copy, Identifiable)]
        pub struct $n;
        impl KeyOfSetColumn for $n {
            type Key = $key;
            type Element = $el;
        }
    };
}
set_col!(KBytes, Vec<u8>, Vec<u8>);
set_col!(KUnit, (), u64);
set_col!(KPair, (Vec<u8>, u8), (u8, Vec<u8>));
set_col!(KU8, u8, u8);

/// how a pool byte string becomes a key / element of each type
trait FromBytes: Sized {
    fn from_bytes(b: &[u8]) -> Self;
}
impl FromBytes for Vec<u8> {
    fn from_bytes(b: &[u8]) -> Self { b.to_vec() }
}
impl FromBytes for String {
    fn from_bytes(b: &[u8]) -> Self { b.iter().map(|x| char::from(*x)).collect() }
}
impl FromBytes for (Vec<u8>, Vec<u8>) {
    fn from_bytes(b: &[u8]) -> Self {
        let m = b.len() / 2;
        (b[..m].to_vec(), b[m..].to_vec())
    }
}
impl FromBytes for () {
    fn from_bytes(_: &[u8]) -> Self {}
}
impl FromBytes for u128 {
    fn from_bytes(b: &[u8]) -> Self {
        let mut x = [0u8; 16];
        for (i, v) in b.iter().take(16).enumerate() {
            x[i] = *v;
        }
        u128::from_le_bytes(x)
    }
}
impl FromBytes for u8 {
    fn from_bytes(b: &[u8]) -> Self { b.last().copied().unwrap_or(0) }
}
impl FromBytes for u64 {
    fn from_bytes(b: &[u8]) -> Self { u128::from_bytes(b) as u64 }
}
impl FromBytes for (Vec<u8>, u8) {
    fn from_bytes(b: &[u8]) -> Self { (b.to_vec(), b.len() as u8) }
}
impl FromBytes for (u8, Vec<u8>) {
    fn from_bytes(b: &[u8]) -> Self { (b.first().copied().unwrap_or(0), b.to_vec()) }
}

#[derive(Clone, Debug)]
enum Op {
    Put { col: u8, vty: u8, key: usize, val: u64, via_buffer: bool },
    Del { col: u8, vty: u8, key: usize, via_buffer: bool },
    InsM { col: u8, key: usize, el: usize, via_buffer: bool },
    DelM { col: u8, key: usize, el: usize, via_buffer: bool },
}

const WIDE_COLS: u8 = 7;
const SET_COLS: u8 = 4;

fn val_a(v: u64) -> VA {
    let n = (v % 3) as usize * if v % 11 == 0 { 1500 } else { 3 };
    VA((0..n).map(|i| (v as u8).wrapping_add(i as u8)).collect())
}

/// model key: (col, vty, debug repr of the logical key) -> debug repr of value
type WideModel = BTreeMap<(u8, u8, String), String>;
type SetModel = BTreeMap<(u8, String), BTreeSet<String>>;

macro_rules! with_wide {
    ($col:expr, $f:ident, $($a:expr),*) => {
        match $col {
            0 => $f::<WpBytes, Db>($($a),*),
            1 => $f::<WsBytes, Db>($($a),*),
            2 => $f::<WpStr, Db>($($a),*),
            3 => $f::<WsPair, Db>($($a),*),
            4 => $f::<WpUnit, Db>($($a),*),
            5 => $f::<WsU128, Db>($($a),*),
            _ => $f::<WpU8, Db>($($a),*),
        }
    };
}
macro_rules! with_set {
    ($col:expr, $f:ident, $($a:expr),*) => {
        match $col {
            0 => $f::<KBytes, Db>($($a),*),
            1 => $f::<KUnit, Db>($($a),*),
            2 => $f::<KPair, Db>($($a),*),
            _ => $f::<KU8, Db>($($a),*),
        }
    };
}

enum Sink<'a, Db: KvDatabase> {
    Batch(&'a mut Db::WriteBatch),
    Buf(&'a mut Db::SerializationBuffer),
}

fn wide_put<W, Db>(sink: Sink<'_, Db>, vty: u8, key: &[u8], val: u64, model: &mut WideModel, col: u8)
where
    W: WideColumn,
    W::Key: FromBytes,
    VA: WideColumnValue<W>,
    VB: WideColumnValue<W>,
    VC: WideColumnValue<W>,
    Db: KvDatabase,
{
    let k = W::Key::from_bytes(key);
    let mk = (col, vty, format!("{k:?}"));
    macro_rules! go {
        ($v:expr) => {{
            let v = $v;
            model.insert(mk, format!("{v:?}"));
            match sink {
                Sink::Batch(b) => b.put::<W, _>(&k, &v),
                Sink::Buf(b) => b.put::<W, _>(&k, &v),
            }
        }};
    }
    match vty {
        0 => go!(val_a(val)),
        1 => go!(VB(val)),
        _ => go!(VC(format!("s{val}"))),
    }
}

fn wide_del<W, Db>(sink: Sink<'_, Db>, vty: u8, key: &[u8], model: &mut WideModel, col: u8)
where
    W: WideColumn,
    W::Key: FromBytes,
    VA: WideColumnValue<W>,
    VB: WideColumnValue<W>,
    VC: WideColumnValue<W>,
    Db: KvDatabase,
{
    let k = W::Key::from_bytes(key);
    model.remove(&(col, vty, format!("{k:?}")));
    match (sink, vty) {
        (Sink::Batch(b), 0) => b.delete::<W, VA>(&k),
        (Sink::Batch(b), 1) => b.delete::<W, VB>(&k),
        (Sink::Batch(b), _) => b.delete::<W, VC>(&k),
        (Sink::Buf(b), 0) => b.delete::<W, VA>(&k),
        (Sink::Buf(b), 1) => b.delete::<W, VB>(&k),
        (Sink::Buf(b), _) => b.delete::<W, VC>(&k),
    }
}

fn wide_get<W, Db>(db: &Db, vty: u8, key: &[u8]) -> (String, Option<String>)
where
    W: WideColumn,
    W::Key: FromBytes,
    VA: WideColumnValue<W>,
    VB: WideColumnValue<W>,
    VC: WideColumnValue<W>,
    Db: KvDatabase,
{
    let k = W::Key::from_bytes(key);
    let got = match vty {
        0 => db.get_wide_column::<W, VA>(&k).map(|v| format!("{v:?}")),
        1 => db.get_wide_column::<W, VB>(&k).map(|v| format!("{v:?}")),
        _ => db.get_wide_column::<W, VC>(&k).map(|v| format!("{v:?}")),
    };
    (format!("{k:?}"), got)
}

fn set_op<C, Db>(sink: Sink<'_, Db>, insert: bool, key: &[u8], el: &[u8], model: &mut SetModel, col: u8)
where
    C: KeyOfSetColumn,
    C::Key: FromBytes,
    C::Element: FromBytes,
    Db: KvDatabase,
{
    let k = C::Key::from_bytes(key);
    let e = C::Element::from_bytes(el);
    let entry = model.entry((col, format!("{k:?}"))).or_default();
    if insert {
        entry.insert(format!("{e:?}"));
    } else {
        entry.remove(&format!("{e:?}"));
    }
    match (sink, insert) {
        (Sink::Batch(b), true) => b.insert_member::<C>(&k, &e),
        (Sink::Batch(b), false) => b.delete_member::<C>(&k, &e),
        (Sink::Buf(b), true) => b.insert_member::<C>(&k, &e),
        (Sink::Buf(b), false) => b.delete_member::<C>(&k, &e),
    }
}

fn set_scan<C, Db>(db: &Db, key: &[u8]) -> (String, Vec<String>)
where
    C: KeyOfSetColumn,
    C::Key: FromBytes,
    C::Element: FromBytes,
    Db: KvDatabase,
{
    let k = C::Key::from_bytes(key);
    (format!("{k:?}"), db.scan_members::<C>(&k).map(|e| format!("{e:?}")).collect())
}

/// adversarial byte-string pool: families around random stems
fn gen_pool(r: &mut Rng) -> (Vec<Vec<u8>>, bool) {
    let mut pool: Vec<Vec<u8>> = vec![vec![], vec![0], vec![0xFF], vec![0xFF, 0xFF], vec![0, 0]];
    for _ in 0..3 {
        let sl = 1 + r.usize_below(3);
        let stem = r.bytes(sl);
        let mut succ = stem.clone();
        if let Some(l) = succ.last_mut() {
            *l = l.wrapping_add(1);
        }
        pool.push(stem.clone());
        for suffix in [vec![0xFF], vec![0xFF, 0xFF], vec![0], vec![0x10], vec![1, 2, 3]] {
            let mut k = stem.clone();
            k.extend(&suffix);
            pool.push(k);
            let mut k = succ.clone();
            k.extend(&suffix);
            pool.push(k);
        }
        // key || element ambiguity: stem, stem+[e], and element [e]
        pool.push(vec![stem[0]]);
    }
    pool.push(vec![0xAB; 127]);
    pool.push(vec![0xAB; 128]);
    pool.push(vec![0xFF; 130]);
    pool.push(r.bytes(3000));
    pool.sort();
    pool.dedup();
    (pool, true)
}

fn gen_batch(r: &mut Rng, pool_len: usize, n: usize) -> Vec<Op> {
    (0..n)
        .map(|_| {
            let via_buffer = r.chance(1, 2);
            let key = r.usize_below(pool_len);
            match r.below(10) {
                0..=3 => Op::Put { col: r.below(u64::from(WIDE_COLS)) as u8, vty: r.below(3) as u8, key, val: r.next_u64() % 1000, via_buffer },
                4 => Op::Del { col: r.below(u64::from(WIDE_COLS)) as u8, vty: r.below(3) as u8, key, via_buffer },
                5..=7 => Op::InsM { col: r.below(u64::from(SET_COLS)) as u8, key, el: r.usize_below(pool_len), via_buffer },
                _ => Op::DelM { col: r.below(u64::from(SET_COLS)) as u8, key, el: r.usize_below(pool_len), via_buffer },
            }
        })
        .collect()
}

struct Fail {
    kind: String,
    detail: String,
}

fn check_all<Db: KvDatabase>(db: &Db, pool: &[Vec<u8>], wide: &WideModel, sets: &SetModel, when: &str, rep: &mut Report) -> Result<(), Fail> {
    for col in 0..WIDE_COLS {
        for vty in 0..3u8 {
            for key in pool {
                let (kr, got) = with_wide!(col, wide_get, db, vty, key);
                rep.count("reads_after_commit", 1);
                let exp = wide.get(&(col, vty, kr.clone())).cloned();
                if got != exp {
                    return Err(Fail {
                        kind: "point-read-differs-from-model".into(),
                        detail: format!("{when}: wide column {col} value type {vty} key {kr} (pool bytes {}): got {:?}, model {:?}", hex(&key[..key.len().min(24)]), got.map(|s| s.chars().take(60).collect::<String>()), exp.map(|s| s.chars().take(60).collect::<String>())),
                    });
                }
            }
        }
    }
    for col in 0..SET_COLS {
        for key in pool {
            let (kr, got) = with_set!(col, set_scan, db, key);
            rep.count("scans_after_commit", 1);
            let gs: BTreeSet<String> = got.iter().cloned().collect();
            if gs.len() != got.len() {
                return Err(Fail { kind: "scan-yields-duplicate-members".into(), detail: format!("{when}: set column {col} key {kr}") });
            }
            let exp = sets.get(&(col, kr.clone())).cloned().unwrap_or_default();
            if gs != exp {
                let extra: Vec<_> = gs.difference(&exp).take(3).collect();
                let missing: Vec<_> = exp.difference(&gs).take(3).collect();
                return Err(Fail {
                    kind: "member-scan-differs-from-model".into(),
                    detail: format!("{when}: set column {col} key {kr} (pool bytes {}): extra {extra:?} missing {missing:?} (model has {} members)", hex(&key[..key.len().min(24)]), exp.len()),
                });
            }
        }
    }
    Ok(())
}

fn history<Db: KvDatabase>(open: &dyn Fn() -> Db, r: &mut Rng, batches: usize, rep: &mut Report) -> Result<u64, Fail> {
    let (pool, _) = gen_pool(r);
    let mut db = open();
    let mut wide = WideModel::new();
    let mut sets = SetModel::new();
    let mut reopens = 0;
    for bi in 0..batches {
        // one batch in four is large and concentrated on a few keys: many operations on one
        // key inside one serialization buffer (the last one must win, in recorded order)
        let big = r.chance(1, 4);
        let nops = if big { 30 + r.usize_below(100) } else { 1 + r.usize_below(12) };
        let ops = gen_batch(r, if big { pool.len().min(2 + bi % 4) } else { pool.len() }, nops);
        if big {
            rep.count("large_batches_with_repeated_keys", 1);
        }
        let mut nw = wide.clone();
        let mut ns = sets.clone();
        let mut batch = db.write_batch();
        let mut buf = db.serialization_buffer();
        let mut used_buf = false;
        // ops through the buffer are applied when the buffer is consumed (at
        // the end), so within one batch keep the two kinds on disjoint targets:
        // simplest is to use one sink per batch
        let all_buffer = r.chance(1, 2);
        for op in &ops {
            match op {
                Op::Put { col, vty, key, val, .. } => {
                    if all_buffer {
                        used_buf = true;
                        with_wide!(*col, wide_put, Sink::Buf(&mut buf), *vty, &pool[*key], *val, &mut nw, *col);
                    } else {
                        with_wide!(*col, wide_put, Sink::Batch(&mut batch), *vty, &pool[*key], *val, &mut nw, *col);
                    }
                }
                Op::Del { col, vty, key, .. } => {
                    if all_buffer {
                        used_buf = true;
                        with_wide!(*col, wide_del, Sink::Buf(&mut buf), *vty, &pool[*key], &mut nw, *col);
                    } else {
                        with_wide!(*col, wide_del, Sink::Batch(&mut batch), *vty, &pool[*key], &mut nw, *col);
                    }
                }
                Op::InsM { col, key, el, .. } | Op::DelM { col, key, el, .. } => {
                    let ins = matches!(op, Op::InsM { .. });
                    if all_buffer {
                        used_buf = true;
                        with_set!(*col, set_op, Sink::Buf(&mut buf), ins, &pool[*key], &pool[*el], &mut ns, *col);
                    } else {
                        with_set!(*col, set_op, Sink::Batch(&mut batch), ins, &pool[*key], &pool[*el], &mut ns, *col);
                    }
                }
            }
        }
        if used_buf {
            batch.consume_serialization_buffer(buf);
        } else {
            drop(buf); // holds a handle to the database
        }
        // uncommitted batch must be invisible (sampled)
        if bi % 3 == 0 {
            check_all(&db, &pool[..pool.len().min(8)], &wide, &sets, "before commit", rep).map_err(|mut f| {
                f.kind = format!("uncommitted-batch-visible/{}", f.kind);
                f
            })?;
        }
        batch.commit();
        wide = nw;
        sets = ns;
        if bi % 2 == 1 || bi + 1 == batches {
            check_all(&db, &pool, &wide, &sets, "after commit", rep)?;
        }
        if r.chance(1, 5) || bi + 1 == batches {
            drop(db);
            db = open();
            reopens += 1;
            check_all(&db, &pool, &wide, &sets, "after close + reopen", rep)?;
        }
    }
    drop(db);
    Ok(reopens)
}

/// a batch takes effect as a whole: monotone-pass marker test
fn marker_test<Db: KvDatabase>(open: &dyn Fn() -> Db, rep: &mut Report) -> Result<(), Fail> {
    let db = open();
    let stop = Arc::new(AtomicBool::new(false));
    let passes = Arc::new(AtomicU64::new(0));
    let bad: Arc<parking_lot::Mutex<Option<String>>> = Arc::new(parking_lot::Mutex::new(None));
    let keys: Vec<Vec<u8>> = (0..6u8).map(|i| vec![i, 0xFF]).collect();
    let mut readers = Vec::new();
    for _ in 0..2 {
        let (db, stop, passes, bad, keys) = (db.clone(), stop.clone(), passes.clone(), bad.clone(), keys.clone());
        readers.push(std::thread::spawn(move || {
            while !stop.load(Ordering::SeqCst) {
                let mut newest = 0u64;
                for k in &keys {
                    let v = db.get_wide_column::<WpBytes, VB>(k).map_or(0, |v| v.0);
                    if v < newest {
                        *bad.lock() = Some(format!("a reader pass saw marker {newest} and then, later in the same pass, the older marker {v}"));
                    }
                    newest = newest.max(v);
                }
                // member scans of two keys of one batch
                let a: Vec<u64> = db.scan_members::<KUnit>(&()).collect();
                let _ = a;
                passes.fetch_add(1, Ordering::Relaxed);
            }
        }));
    }
    for n in 1..=300u64 {
        let mut b = db.write_batch();
        for k in keys.iter().rev() {
            b.put::<WpBytes, VB>(k, &VB(n));
        }
        b.commit();
    }
    stop.store(true, Ordering::SeqCst);
    for r in readers {
        let _ = r.join();
    }
    rep.count("marker_passes", passes.load(Ordering::Relaxed));
    drop(db);
    if let Some(b) = bad.lock().take() {
        return Err(Fail { kind: "batch-partially-visible".into(), detail: b });
    }
    Ok(())
}

fn scratch(tag: &str, n: u64) -> PathBuf {
    let p = PathBuf::from(format!("/var/tmp/qv-c11-{}-{tag}-{n}", std::process::id()));
    let _ = std::fs::remove_dir_all(&p);
    std::fs::create_dir_all(&p).unwrap();
    p
}

fn run_backend<Db: KvDatabase>(ctx: &WorkerCtx, rep: &mut Report, name: &str, open_at: &dyn Fn(&Path) -> Db, base: &Rng, n: u64, seen: &mut std::collections::HashSet<String>) {
    for i in 0..n {
        let mut r = base.derive(h64(name) ^ i);
        let dir = scratch(name, i);
        let case = format!("C11 {name} history {i}");
        ctx.announce(&case);
        let mark = sup::panic_mark();
        let d2 = dir.clone();
        let open = move || open_at(&d2);
        let res = std::panic::catch_unwind(std::panic::AssertUnwindSafe(|| {
            if i == 0 {
                marker_test(&open, rep)?;
                let _ = std::fs::remove_dir_all(&dir);
                std::fs::create_dir_all(&dir).unwrap();
            }
            let batches = 4 + r.usize_below(16);
            history(&open, &mut r, batches, rep)
        }));
        rep.evaluations += 1;
        let fail = match res {
            Ok(Ok(reopens)) => {
                rep.count("reopens", reopens);
                rep.count(&format!("histories_{name}"), 1);
                if reopens > 0 {
                    rep.distinct.insert(h64(&(name, i, ctx.seed)));
                }
                None
            }
            Ok(Err(f)) => Some(f),
            Err(_) => Some(Fail { kind: "backend-panicked".into(), detail: sup::panics_since(mark).join(" | ") }),
        };
        let _ = std::fs::remove_dir_all(&dir);
        if let Some(f) = fail {
            let sig = format!("C11/{} backend={name}", f.kind);
            if seen.insert(sig.clone()) {
                ctx.violation(&Violation { signature: sig, what: format!("{}: {}", f.kind, f.detail), witness: Json::obj().set("case", case.as_str()).set("seed", ctx.seed).set("detail", f.detail) });
            } else {
                rep.count("repeat_violations_same_signature", 1);
            }
        }
    }
}

pub fn worker(ctx: &WorkerCtx) -> Report {
    let mut rep = Report::default();
    let base = Rng::new(ctx.seed).derive(1100 + ctx.shard as u64);
    let n: u64 = ctx.pick(30, 600);
    let mut seen = std::collections::HashSet::new();
    #[cfg(feature = "rocksdb")]
    run_backend(ctx, &mut rep, "rocksdb", &|p: &Path| qbice_storage::kv_database::rocksdb::RocksDB::open(p, Plugin::default()).expect("open rocksdb"), &base, n, &mut seen);
    #[cfg(feature = "fjall")]
    run_backend(ctx, &mut rep, "fjall", &|p: &Path| qbice_storage::kv_database::fjall::Fjall::open(p, Plugin::default()).expect("open fjall"), &base, n, &mut seen);
    rep.sample(Json::obj().set("backends", "rocksdb, fjall").set("histories_per_backend", n));
    let _ = HashMap::<u8, u8>::new();
    rep
}
