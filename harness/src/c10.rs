//! C10 - write-behind applies every batch exactly once, in creation order, by
//! shutdown.

use std::{
    collections::{BTreeMap, HashMap},
    sync::{Arc, atomic::Ordering},
};

use dashmap::DashSet;
use fxhash::FxBuildHasher;
use parking_lot::Mutex;
use qbice_serialize::Plugin;
use qbice_storage::{
    key_of_set_map::KeyOfSetMap,
    single_map::SingleMap,
    storage_engine::{
        StorageEngine,
        db_backed::{Configuration, DbBacked},
    },
    write_manager::write_behind::WriteBatch,
};

use crate::{
    c09::{ColK, ColS, ValS},
    hooks::{self, PointPolicy},
    reckv::{Grouping, RecKv, Shared, enc_with, set_prefix, wide_key},
    sup::{self, CheckMeta, PartSpec, Report, Tier, Violation, WorkerCtx},
    util::{Json, Rng, h64},
};

type Db = DbBacked<RecKv>;
type Set = Arc<DashSet<u64, FxBuildHasher>>;
type Batch = WriteBatch<RecKv>;

pub fn meta(tier: Tier) -> CheckMeta {
    CheckMeta {
        id: "C10",
        level: "exploration",
        rule: "pipeline lifetimes: a WriteBehind with 1-8 serializer workers over RecKv (grouping Never / Random / \
               Always, seeded delays in commit and at the write-behind hook sites); 1-16 client threads create \
               batches (creation order = verif_epoch), fill them through a cached single-value map and a \
               key-to-set map with unique values over 4-10 overlapping keys, hand them to other threads through \
               a shared pool and submit them in an order different from creation order (incl. oldest last); \
               then the manager is dropped and RecKv is inspected at once. Oracle over the physical commit log: \
               every submitted batch epoch exactly once; epochs strictly increasing along the log; all present \
               when drop returns; final store content = batches applied one after another in creation order; \
               no panic on any pipeline thread. distinct = hash(config, submission order); non-trivial = \
               submission order differed from creation order and >= 2 batches wrote one key.",
        assumptions: vec!["every created batch is submitted (a batch that is never submitted is C05's subject)".into()],
        parts: {
            let mut parts = vec![PartSpec { name: "native", nshards: 16, budget_s: tier.pick(300, 2400), env: vec![], program: None, prepare: None, sanitizer: None }];
            if tier == Tier::Thorough { parts.push(crate::sup::sanitizer_part("miri", 8, tier.pick(900, 2400))); }
            if tier == Tier::Thorough { parts.push(crate::sup::sanitizer_part("tsan", 8, 2400)); }
            parts
        },
        must_be_nonzero: vec![("lifetimes_submission_differs_from_creation", "submission order never differed from creation order"), ("keys_written_by_several_batches", "no overlapping writes")],
    }
}

#[derive(Clone)]
struct BatchInfo {
    epoch: u64,
    /// key -> last value written (None = removed) by this batch
    wide: HashMap<u32, Option<u64>>,
    /// (key, element) -> inserted?
    sets: HashMap<(u32, u64), bool>,
}

struct Open {
    batch: Batch,
    info: BatchInfo,
}

pub struct LifetimeCfg {
    pub threads: usize,
    pub workers: usize,
    pub grouping: Grouping,
    pub batches_per_thread: usize,
    pub keys: u32,
    pub delays: bool,
    pub cap: u64,
}

pub fn lifetime(c: &LifetimeCfg, seed: u64) -> Result<(bool, u64, u64), (String, String)> {
    let shared = Shared::new(c.grouping, seed);
    if c.delays {
        shared.delay_commit_us.store(80, Ordering::Relaxed);
        hooks::set_point(PointPolicy::Delay { max_us: 60, num: 1, den: 4 });
    }
    let kv = RecKv::new(shared.clone(), Plugin::default());
    let db: Db = DbBacked::new(kv, Configuration::builder().cache_capacity(c.cap).serialization_workers(c.workers).build());
    let wm = Arc::new(db.new_write_manager());
    let smap = Arc::new(db.new_single_map::<ColS, ValS>());
    let kmap = Arc::new(db.new_key_of_set_map::<ColK, Set>());
    let pool: Arc<Mutex<Vec<Open>>> = Arc::new(Mutex::new(Vec::new()));
    let submitted: Arc<Mutex<Vec<BatchInfo>>> = Arc::new(Mutex::new(Vec::new()));
    let sub_order: Arc<Mutex<Vec<u64>>> = Arc::new(Mutex::new(Vec::new()));
    let mark = sup::panic_mark();
    let mut hs = Vec::new();
    for t in 0..c.threads {
        let (wm, smap, kmap, pool, submitted, sub_order) = (wm.clone(), smap.clone(), kmap.clone(), pool.clone(), submitted.clone(), sub_order.clone());
        let (bpt, keys) = (c.batches_per_thread, c.keys);
        let mut r = Rng::new(seed).derive(t as u64 + 1);
        hs.push(std::thread::spawn(move || {
            let fill = |o: &mut Open, r: &mut Rng| {
                for n in 0..1 + r.below(5) {
                    let k = r.below(u64::from(keys)) as u32;
                    let uniq = (o.info.epoch << 24) | (r.next_u64() & 0xFF_FF00) | n;
                    match r.below(6) {
                        0 => {
                            futures::executor::block_on(smap.remove(&k, &mut o.batch));
                            o.info.wide.insert(k, None);
                        }
                        1 | 2 => {
                            let e = r.below(4);
                            futures::executor::block_on(kmap.insert(k, e, &mut o.batch));
                            o.info.sets.insert((k, e), true);
                        }
                        3 => {
                            let e = r.below(4);
                            futures::executor::block_on(kmap.remove(&k, &e, &mut o.batch));
                            o.info.sets.insert((k, e), false);
                        }
                        _ => {
                            futures::executor::block_on(smap.insert(k, ValS(uniq), &mut o.batch));
                            o.info.wide.insert(k, Some(uniq));
                        }
                    }
                }
            };
            let submit = |o: Open| {
                sub_order.lock().push(o.info.epoch);
                submitted.lock().push(o.info);
                wm.submit_write_batch(o.batch);
            };
            for _ in 0..bpt {
                let batch = wm.new_write_batch();
                let epoch = batch.verif_epoch();
                let mut o = Open { batch, info: BatchInfo { epoch, wide: HashMap::new(), sets: HashMap::new() } };
                // (one batch in six stays empty: an input session that writes nothing still
                // submits its batch, and the pipeline must not lose its place in the sequence)
                if !r.chance(1, 6) {
                    fill(&mut o, &mut r);
                }
                match r.below(4) {
                    0 => submit(o),
                    _ => pool.lock().push(o),
                }
                // take someone's batch from the pool: fill more, submit or put back
                if r.chance(2, 3) {
                    let taken = {
                        let mut p = pool.lock();
                        if p.is_empty() {
                            None
                        } else {
                            let i = match r.below(3) {
                                0 => p.len() - 1, // newest first => oldest submitted last
                                1 => 0,
                                _ => r.usize_below(p.len()),
                            };
                            Some(p.swap_remove(i))
                        }
                    };
                    if let Some(mut o) = taken {
                        fill(&mut o, &mut r);
                        if r.chance(2, 3) { submit(o) } else { pool.lock().push(o) }
                    }
                }
            }
        }));
    }
    for h in hs {
        if h.join().is_err() {
            return Err(("client-thread-panicked".into(), sup::panics_since(mark).join(" | ")));
        }
    }
    // leftovers: submit newest first (so the oldest open batch is submitted last)
    {
        let mut p = std::mem::take(&mut *pool.lock());
        p.sort_by_key(|o| std::cmp::Reverse(o.info.epoch));
        for o in p {
            sub_order.lock().push(o.info.epoch);
            submitted.lock().push(o.info);
            wm.submit_write_batch(o.batch);
        }
    }
    let wm = Arc::try_unwrap(wm).map_err(|_| ("harness".to_string(), "write manager still shared".to_string()))?;
    drop(wm); // must return only after everything is durable
    let log = shared.log.lock().clone();
    let store = shared.snapshot();
    hooks::set_point(PointPolicy::Off);
    drop((smap, kmap));
    let ps = sup::panics_since(mark);
    if !ps.is_empty() {
        return Err(("pipeline-panic".into(), ps.join(" | ")));
    }
    let infos = submitted.lock().clone();
    // exactly once + order
    let logged: Vec<u64> = log.iter().flat_map(|c| c.epochs.iter().copied()).collect();
    if !logged.windows(2).all(|w| w[0] < w[1]) {
        return Err(("batches-applied-out-of-creation-order".into(), format!("epochs along the commit log: {:?}", &logged[..logged.len().min(60)])));
    }
    let mut want: Vec<u64> = infos.iter().map(|i| i.epoch).collect();
    want.sort_unstable();
    if logged != want {
        let missing: Vec<u64> = want.iter().copied().filter(|e| !logged.contains(e)).take(10).collect();
        let extra: Vec<u64> = logged.iter().copied().filter(|e| !want.contains(e)).take(10).collect();
        return Err(("submitted-batches-not-all-durable-at-drop".into(), format!("{} submitted, {} in the store when drop returned; missing {missing:?} unexpected {extra:?}", want.len(), logged.len())));
    }
    // model: apply in creation order
    let plugin = Plugin::default();
    let mut by_epoch: BTreeMap<u64, &BatchInfo> = BTreeMap::new();
    for i in &infos {
        by_epoch.insert(i.epoch, i);
    }
    let mut model: BTreeMap<Vec<u8>, Vec<u8>> = BTreeMap::new();
    let mut writers: HashMap<u32, u32> = HashMap::new();
    for info in by_epoch.values() {
        for (k, v) in &info.wide {
            *writers.entry(*k).or_insert(0) += 1;
            let (key, _) = wide_key::<ColS, ValS>(&plugin, k);
            match v {
                Some(v) => {
                    model.insert(key, enc_with(&plugin, &ValS(*v)));
                }
                None => {
                    model.remove(&key);
                }
            }
        }
        for ((k, e), ins) in &info.sets {
            let (mut key, _) = set_prefix::<ColK>(&plugin, k);
            let eb = enc_with(&plugin, e);
            key.extend_from_slice(&(eb.len() as u32).to_be_bytes());
            key.extend_from_slice(&eb);
            if *ins {
                model.insert(key, eb);
            } else {
                model.remove(&key);
            }
        }
    }
    if model != store {
        let diff: Vec<String> = model
            .iter()
            .filter(|(k, v)| store.get(*k) != Some(*v))
            .map(|(k, _)| format!("store differs at {}", crate::util::hex(&k[17..k.len().min(40)])))
            .chain(store.keys().filter(|k| !model.contains_key(*k)).map(|k| format!("store has extra {}", crate::util::hex(&k[17..k.len().min(40)]))))
            .take(5)
            .collect();
        return Err(("final-content-differs-from-creation-order-application".into(), diff.join("; ")));
    }
    let order = sub_order.lock().clone();
    let differs = !order.windows(2).all(|w| w[0] < w[1]);
    let overlap = writers.values().filter(|c| **c >= 2).count() as u64;
    Ok((differs, overlap, infos.len() as u64))
}

pub fn worker(ctx: &WorkerCtx) -> Report {
    hooks::install();
    let mut rep = Report::default();
    let base = Rng::new(ctx.seed).derive(1000 + ctx.shard as u64);
    let n: u64 = if ctx.part == "miri" { 2 } else { ctx.pick(2000, 40_000) };
    let mut seen = std::collections::HashSet::new();
    for i in 0..n {
        let mut r = base.derive(i);
        let c = LifetimeCfg {
            threads: if ctx.part == "miri" { 2 } else { *r.pick(&[1usize, 2, 2, 8, 16]) },
            workers: *r.pick(&[1usize, 2, 3, 8]),
            grouping: *r.pick(&[Grouping::Never, Grouping::Random(4), Grouping::Random(7), Grouping::Always]),
            batches_per_thread: if ctx.part == "miri" { 3 } else { 2 + r.usize_below(12) },
            keys: 4 + r.below(7) as u32,
            delays: r.chance(1, 3),
            cap: *r.pick(&[1u64, 4, 1 << 18]),
        };
        let case = format!("C10 lifetime {i} threads={} workers={} grouping={:?} bpt={} keys={} delays={} cap={}", c.threads, c.workers, c.grouping, c.batches_per_thread, c.keys, c.delays, c.cap);
        if i % 20 == 0 {
            ctx.announce(&case);
        }
        let seed = r.next_u64();
        rep.evaluations += 1;
        match lifetime(&c, seed) {
            Ok((differs, overlap, batches)) => {
                rep.count("batches", batches);
                rep.count("keys_written_by_several_batches", overlap);
                if differs {
                    rep.count("lifetimes_submission_differs_from_creation", 1);
                }
                if differs && overlap > 0 {
                    rep.distinct.insert(h64(&(&case, seed)));
                }
                if i == 0 {
                    rep.sample(Json::obj().set("case", case.as_str()).set("batches", batches));
                }
            }
            Err((kind, detail)) => {
                let sig = format!("C10/{kind}");
                if seen.insert(sig.clone()) {
                    ctx.announce(&case);
                    ctx.violation(&Violation { signature: sig, what: format!("{kind}: {detail}"), witness: Json::obj().set("case", case.as_str()).set("lifetime_seed", seed).set("detail", detail) });
                } else {
                    rep.count("repeat_violations_same_signature", 1);
                }
            }
        }
    }
    rep
}
