//! `RecKv`: a pure-Rust recording `KvDatabase` (DESIGN section 2.2).

use std::{
    collections::BTreeMap,
    sync::{
        Arc,
        atomic::{AtomicBool, AtomicU64, Ordering},
    },
};

use parking_lot::{Condvar, Mutex};
use qbice_serialize::{Decoder, Encode, Encoder, Plugin, PostcardDecoder, PostcardEncoder};
use qbice_stable_type_id::Identifiable;
use qbice_storage::kv_database::{
    KeyOfSetColumn, KvDatabase, KvDatabaseFactory, SerializationBuffer, WideColumn,
    WideColumnValue, WriteBatch,
};

use crate::util::Rng;

#[derive(Clone, Debug, PartialEq, Eq)]
pub struct RawOp {
    /// composite key (column id, kind, discriminant, key[, element])
    pub key: Vec<u8>,
    /// None = delete
    pub val: Option<Vec<u8>>,
    /// `type_name` of the column and of the value / element type
    pub tag: &'static str,
    /// raw encoded logical key (without column / discriminant)
    pub logical_key: Vec<u8>,
}

#[derive(Clone, Debug, Default)]
pub struct PhysCommit {
    pub ops: Vec<RawOp>,
    /// number of serialization buffers (= logical batches) consumed
    pub logical_batches: usize,
    /// epochs of the logical batches (as told by the `verif` hook), in order
    pub epochs: Vec<u64>,
}

#[derive(Clone, Copy, Debug, PartialEq, Eq)]
pub enum Grouping {
    /// one logical batch per physical commit (finest)
    Never,
    /// keep accumulating until shutdown
    Always,
    /// seeded coin, probability num/8 of "write more"
    Random(u8),
}

pub struct Shared {
    pub state: Mutex<BTreeMap<Vec<u8>, Vec<u8>>>,
    pub log: Mutex<Vec<PhysCommit>>,
    pub grouping: Mutex<Grouping>,
    pub coin: Mutex<Rng>,
    /// commit gate: when enabled a physical commit waits for a permit
    pub gate_on: AtomicBool,
    pub gate: Mutex<u64>,
    pub gate_cv: Condvar,
    pub commits_waiting: AtomicU64,
    /// seeded delays (microseconds upper bound; 0 = off)
    pub delay_commit_us: AtomicU64,
    pub delay_read_us: AtomicU64,
    pub reads: AtomicU64,
    pub scans: AtomicU64,
    /// stop applying commits after this many (crash injection on the live
    /// store); u64::MAX = off
    pub freeze_after: AtomicU64,
    /// one-shot callback run by the next store read (point read or member scan) right
    /// after it has taken its data and before it returns it: lets a driver place a commit
    /// (and its after-commit work) *inside* a cache fill
    pub after_read_once: Mutex<Option<Box<dyn FnOnce() + Send>>>,
}

impl Shared {
    pub fn new(grouping: Grouping, seed: u64) -> Arc<Self> {
        Arc::new(Self {
            state: Mutex::new(BTreeMap::new()),
            after_read_once: Mutex::new(None),
            log: Mutex::new(Vec::new()),
            grouping: Mutex::new(grouping),
            coin: Mutex::new(Rng::new(seed)),
            gate_on: AtomicBool::new(false),
            gate: Mutex::new(0),
            gate_cv: Condvar::new(),
            commits_waiting: AtomicU64::new(0),
            delay_commit_us: AtomicU64::new(0),
            delay_read_us: AtomicU64::new(0),
            reads: AtomicU64::new(0),
            scans: AtomicU64::new(0),
            freeze_after: AtomicU64::new(u64::MAX),
        })
    }

    /// Store as it is after the first `p` physical commits of `log`.
    pub fn from_prefix(log: &[PhysCommit], p: usize, grouping: Grouping) -> Arc<Self> {
        let s = Self::new(grouping, p as u64);
        {
            let mut st = s.state.lock();
            for c in &log[..p.min(log.len())] {
                apply(&mut st, &c.ops);
            }
        }
        s
    }

    pub fn snapshot(&self) -> BTreeMap<Vec<u8>, Vec<u8>> { self.state.lock().clone() }

    pub fn commit_count(&self) -> usize { self.log.lock().len() }

    pub fn release(&self, n: u64) {
        *self.gate.lock() += n;
        self.gate_cv.notify_all();
    }

    pub fn open_gate(&self) {
        self.gate_on.store(false, Ordering::SeqCst);
        self.gate_cv.notify_all();
    }

    fn maybe_delay(&self, which: &AtomicU64) {
        let us = which.load(Ordering::Relaxed);
        if us > 0 {
            let d = self.coin.lock().below(us + 1);
            if d > 0 {
                std::thread::sleep(std::time::Duration::from_micros(d));
            }
        }
    }
}

fn apply(st: &mut BTreeMap<Vec<u8>, Vec<u8>>, ops: &[RawOp]) {
    for op in ops {
        match &op.val {
            Some(v) => {
                st.insert(op.key.clone(), v.clone());
            }
            None => {
                st.remove(&op.key);
            }
        }
    }
}

#[derive(Clone)]
pub struct RecKv {
    pub shared: Arc<Shared>,
    plugin: Arc<Plugin>,
}

impl std::fmt::Debug for RecKv {
    fn fmt(&self, f: &mut std::fmt::Formatter<'_>) -> std::fmt::Result { f.write_str("RecKv") }
}

impl RecKv {
    pub fn new(shared: Arc<Shared>, plugin: Plugin) -> Self {
        Self { shared, plugin: Arc::new(plugin) }
    }

    fn enc<T: Encode + ?Sized>(&self, v: &T) -> Vec<u8>
    where
        T: Sized,
    {
        enc_with(&self.plugin, v)
    }
}

pub fn enc_with<T: Encode>(p: &Plugin, v: &T) -> Vec<u8> {
    let mut buf = Vec::new();
    PostcardEncoder::new(&mut buf).encode(v, p).expect("encode");
    buf
}

fn push_lp(out: &mut Vec<u8>, b: &[u8]) {
    out.extend_from_slice(&(b.len() as u32).to_be_bytes());
    out.extend_from_slice(b);
}

pub fn wide_key<W: WideColumn, C: WideColumnValue<W>>(p: &Plugin, key: &W::Key) -> (Vec<u8>, Vec<u8>) {
    let mut k = Vec::new();
    k.extend_from_slice(&W::STABLE_TYPE_ID.as_u128().to_be_bytes());
    k.push(0);
    push_lp(&mut k, &enc_with(p, &C::discriminant()));
    let lk = enc_with(p, key);
    push_lp(&mut k, &lk);
    (k, lk)
}

pub fn set_prefix<C: KeyOfSetColumn>(p: &Plugin, key: &C::Key) -> (Vec<u8>, Vec<u8>) {
    let mut k = Vec::new();
    k.extend_from_slice(&<C as Identifiable>::STABLE_TYPE_ID.as_u128().to_be_bytes());
    k.push(1);
    let lk = enc_with(p, key);
    push_lp(&mut k, &lk);
    (k, lk)
}

#[derive(Default)]
pub struct RecBuf {
    ops: Vec<RawOp>,
    plugin: Option<Arc<Plugin>>,
    epoch: Option<u64>,
}

impl RecBuf {
    fn p(&self) -> &Plugin { self.plugin.as_ref().expect("plugin") }
}

impl SerializationBuffer for RecBuf {
    fn put<W: WideColumn, C: WideColumnValue<W>>(&mut self, key: &W::Key, value: &C) {
        let (k, lk) = wide_key::<W, C>(self.p(), key);
        let v = enc_with(self.p(), value);
        self.ops.push(RawOp { key: k, val: Some(v), tag: std::any::type_name::<(W, C)>(), logical_key: lk });
    }

    fn delete<W: WideColumn, C: WideColumnValue<W>>(&mut self, key: &W::Key) {
        let (k, lk) = wide_key::<W, C>(self.p(), key);
        self.ops.push(RawOp { key: k, val: None, tag: std::any::type_name::<(W, C)>(), logical_key: lk });
    }

    fn insert_member<C: KeyOfSetColumn>(&mut self, key: &C::Key, value: &C::Element) {
        let (mut k, lk) = set_prefix::<C>(self.p(), key);
        let e = enc_with(self.p(), value);
        push_lp(&mut k, &e);
        self.ops.push(RawOp { key: k, val: Some(e), tag: std::any::type_name::<C>(), logical_key: lk });
    }

    fn delete_member<C: KeyOfSetColumn>(&mut self, key: &C::Key, value: &C::Element) {
        let (mut k, lk) = set_prefix::<C>(self.p(), key);
        let e = enc_with(self.p(), value);
        push_lp(&mut k, &e);
        self.ops.push(RawOp { key: k, val: None, tag: std::any::type_name::<C>(), logical_key: lk });
    }
}

pub struct RecBatch {
    shared: Arc<Shared>,
    buf: RecBuf,
    logical: usize,
    epochs: Vec<u64>,
}

impl WriteBatch for RecBatch {
    type SerializationBuffer = RecBuf;

    fn put<W: WideColumn, C: WideColumnValue<W>>(&mut self, key: &W::Key, value: &C) {
        self.buf.put::<W, C>(key, value);
    }

    fn delete<W: WideColumn, C: WideColumnValue<W>>(&mut self, key: &W::Key) {
        self.buf.delete::<W, C>(key);
    }

    fn insert_member<C: KeyOfSetColumn>(&mut self, key: &C::Key, value: &C::Element) {
        self.buf.insert_member::<C>(key, value);
    }

    fn delete_member<C: KeyOfSetColumn>(&mut self, key: &C::Key, value: &C::Element) {
        self.buf.delete_member::<C>(key, value);
    }

    fn consume_serialization_buffer(&mut self, buffer: RecBuf) {
        self.buf.ops.extend(buffer.ops);
        self.logical += 1;
        if let Some(e) = buffer.epoch {
            self.epochs.push(e);
        }
    }

    fn commit(self) {
        let sh = &self.shared;
        if self.buf.ops.is_empty() && self.logical == 0 {
            return; // the trailing empty batch at shutdown: nothing to record
        }
        if sh.gate_on.load(Ordering::SeqCst) {
            sh.commits_waiting.fetch_add(1, Ordering::SeqCst);
            let mut g = sh.gate.lock();
            while *g == 0 && sh.gate_on.load(Ordering::SeqCst) {
                sh.gate_cv.wait_for(&mut g, std::time::Duration::from_millis(20));
            }
            if *g > 0 {
                *g -= 1;
            }
            sh.commits_waiting.fetch_sub(1, Ordering::SeqCst);
        }
        sh.maybe_delay(&sh.delay_commit_us);
        let mut log = sh.log.lock();
        if (log.len() as u64) >= sh.freeze_after.load(Ordering::SeqCst) {
            return; // injected crash: this and later commits never reach the store
        }
        let mut st = sh.state.lock();
        apply(&mut st, &self.buf.ops);
        log.push(PhysCommit { ops: self.buf.ops, logical_batches: self.logical, epochs: self.epochs });
    }

    fn should_write_more(&self) -> bool {
        match *self.shared.grouping.lock() {
            Grouping::Never => false,
            Grouping::Always => true,
            Grouping::Random(n) => self.shared.coin.lock().below(8) < u64::from(n),
        }
    }
}

impl KvDatabase for RecKv {
    type WriteBatch = RecBatch;
    type SerializationBuffer = RecBuf;
    type ScanMemberIterator<C: KeyOfSetColumn> = std::vec::IntoIter<C::Element>;

    fn get_wide_column<W: WideColumn, C: WideColumnValue<W>>(&self, key: &W::Key) -> Option<C> {
        self.shared.reads.fetch_add(1, Ordering::Relaxed);
        let (k, _) = wide_key::<W, C>(&self.plugin, key);
        let bytes = self.shared.state.lock().get(&k).cloned();
        if let Some(f) = self.shared.after_read_once.lock().take() {
            f();
        }
        self.shared.maybe_delay(&self.shared.delay_read_us);
        bytes.map(|b| {
            PostcardDecoder::new(&b[..]).decode::<C>(&self.plugin).expect("RecKv: stored value decodes")
        })
    }

    fn scan_members<C: KeyOfSetColumn>(&self, key: &C::Key) -> Self::ScanMemberIterator<C> {
        self.shared.scans.fetch_add(1, Ordering::Relaxed);
        let (prefix, _) = set_prefix::<C>(&self.plugin, key);
        let vals: Vec<Vec<u8>> = {
            let st = self.shared.state.lock();
            st.range(prefix.clone()..).take_while(|(k, _)| k.starts_with(&prefix)).map(|(_, v)| v.clone()).collect()
        };
        if let Some(f) = self.shared.after_read_once.lock().take() {
            f();
        }
        self.shared.maybe_delay(&self.shared.delay_read_us);
        vals.into_iter()
            .map(|b| {
                PostcardDecoder::new(&b[..]).decode::<C::Element>(&self.plugin).expect("RecKv: stored member decodes")
            })
            .collect::<Vec<_>>()
            .into_iter()
    }

    fn write_batch(&self) -> RecBatch {
        RecBatch {
            shared: self.shared.clone(),
            buf: RecBuf { ops: vec![], plugin: Some(self.plugin.clone()), epoch: None },
            logical: 0,
            epochs: vec![],
        }
    }

    fn serialization_buffer(&self) -> RecBuf {
        RecBuf { ops: vec![], plugin: Some(self.plugin.clone()), epoch: crate::hooks::current_epoch() }
    }
}

pub struct RecKvFactory(pub Arc<Shared>);

impl KvDatabaseFactory for RecKvFactory {
    type KvDatabase = RecKv;
    type Error = std::convert::Infallible;

    fn open(self, serialization_plugin: Plugin) -> Result<RecKv, Self::Error> {
        Ok(RecKv::new(self.0, serialization_plugin))
    }
}

#[allow(dead_code)]
fn _assert_bounds() {
    fn is<T: KvDatabase>() {}
    is::<RecKv>();
    let _ = RecKv::enc::<u8>;
}
