use qv::sup::{self, CheckMeta, Report, Tier, WorkerCtx};

fn meta_for(check: &str, tier: Tier) -> Option<CheckMeta> {
    Some(match check {
        "C01" => qv::c01::meta("C01", tier),
        "C02" => qv::c02::meta(tier),
        "C03" => qv::c01::meta("C03", tier),
        "C04" => qv::c04::meta(tier),
        "C05" => qv::c05::meta(tier),
        "C06" => qv::c06::meta(tier),
        "C07" => qv::c07::meta(tier),
        "C08" => qv::c08::meta(tier),
        "C09" => qv::c09::meta(tier),
        "C10" => qv::c10::meta(tier),
        #[cfg(any(feature = "rocksdb", feature = "fjall"))]
        "C11" => qv::c11::meta(tier),
        "C12" => qv::c12::meta(tier),
        "C13" => qv::c13::meta(tier),
        "C14" => qv::c14::meta(tier),
        "C15" => qv::c15::meta(tier),
        "C16" => qv::c16::meta(tier),
        _ => return None,
    })
}

fn worker_for(ctx: &WorkerCtx) -> Report {
    match ctx.check.as_str() {
        "C01" => qv::c01::worker(ctx, "C01"),
        "C02" => qv::c02::worker(ctx),
        "C03" => qv::c01::worker(ctx, "C03"),
        "C04" => qv::c04::worker(ctx),
        "C05" => qv::c05::worker(ctx),
        "C06" => qv::c06::worker(ctx),
        "C07" => qv::c07::worker(ctx),
        "C08" => qv::c08::worker(ctx),
        "C09" => qv::c09::worker(ctx),
        "C10" => qv::c10::worker(ctx),
        #[cfg(any(feature = "rocksdb", feature = "fjall"))]
        "C11" => qv::c11::worker(ctx),
        "C12" => qv::c12::worker(ctx),
        "C13" => qv::c13::worker(ctx),
        "C14" => qv::c14::worker(ctx),
        "C15" => qv::c15::worker(ctx),
        "C16" => qv::c16::worker(ctx),
        other => panic!("unknown check {other}"),
    }
}

fn parse_tier(s: &str) -> Tier {
    if s == "thorough" { Tier::Thorough } else { Tier::Quick }
}

fn main() {
    let args: Vec<String> = std::env::args().collect();
    let cmd = args.get(1).map(String::as_str).unwrap_or("");
    match cmd {
        "run" => {
            let check = args.get(2).expect("check id").clone();
            let mut tier = std::env::var("VERIF_TIER").map(|s| parse_tier(&s)).unwrap_or(Tier::Quick);
            let mut seed: u64 = std::env::var("VERIF_SEED").ok().and_then(|s| s.parse().ok()).unwrap_or(1);
            let mut replay = None;
            let mut i = 3;
            while i < args.len() {
                match args[i].as_str() {
                    "--tier" => {
                        tier = parse_tier(&args[i + 1]);
                        i += 1;
                    }
                    "--seed" => {
                        seed = args[i + 1].parse().expect("seed");
                        i += 1;
                    }
                    "--replay" => {
                        replay = Some(args[i + 1].clone());
                        i += 1;
                    }
                    _ => {}
                }
                i += 1;
            }
            let Some(meta) = meta_for(&check, tier) else {
                eprintln!("unknown check {check}");
                std::process::exit(2);
            };
            let r = sup::run_check(meta, seed, tier, replay.as_deref());
            std::process::exit(r.exit);
        }
        "worker" => {
            sup::install_panic_recorder();
            let ctx = WorkerCtx {
                check: args[2].clone(),
                part: args[3].clone(),
                shard: args[4].parse().unwrap(),
                nshards: args[5].parse().unwrap(),
                seed: args[6].parse().unwrap(),
                tier: parse_tier(&args[7]),
                replay: args.get(8).cloned(),
            };
            let rep = worker_for(&ctx);
            ctx.finish(&rep);
        }
        "noop" => println!("ok"),
        "probe-kos" => {
            // ad-hoc: failure rate of the parallel C09 round under a few configurations
            use qv::reckv::Grouping;
            qv::hooks::install();
            {
                let mut bad = 0;
                let mut first = String::new();
                for i in 0..40u64 {
                    let out = qv::c09::parallel_round(1, 2, 1, 2, 1114, Grouping::Random(4), 16096941606576493694 + i, false, true);
                    if let Some(b) = out.bad.first() {
                        bad += 1;
                        if first.is_empty() {
                            first = b.clone();
                        }
                    }
                }
                println!("exact: {bad}/40 rounds bad; {first}");
            }
            for (cap, workers, keys, readers, grouping, delays) in [
                (1u64, 1usize, 1usize, 4usize, Grouping::Always, false),
                (1 << 18, 1, 1, 4, Grouping::Always, false),
                (1, 1, 1, 2, Grouping::Always, false),
                (1, 1, 1, 4, Grouping::Never, false),
                (1, 1, 1, 4, Grouping::Never, true),
            ] {
                let mut bad = 0;
                let mut first = String::new();
                for i in 0..40u64 {
                    let out = qv::c09::parallel_round(cap, workers, keys, readers, 1200, grouping, 77 + i, delays, true);
                    if let Some(b) = out.bad.first() {
                        bad += 1;
                        if first.is_empty() {
                            first = b.clone();
                        }
                    }
                }
                println!("cap={cap} workers={workers} keys={keys} readers={readers} {grouping:?} delays={delays}: {bad}/40 rounds bad; {first}");
            }
        }
        "hash-child" => qv::c13::hash_child(args[2].parse().unwrap()),
        "typeid-child" => qv::c14::typeid_child(),
        "kill-child" => qv::c08::kill_child(&args[2..]),
        "probe-bp" => {
            use qv::eng::*;
            use qv::model::*;
            let mut p = Program::default();
            p.nodes.insert(nid(Kind::F, 0), NodeSpec { ops: vec![Op::Read(nid(Kind::In, 0))], combine: Combine::SumPlus(10) });
            p.nodes.insert(nid(Kind::P, 0), NodeSpec { ops: vec![Op::Read(nid(Kind::F, 0))], combine: Combine::SumPlus(100) });
            p.nodes.insert(nid(Kind::N, 1), NodeSpec { ops: vec![Op::Read(nid(Kind::P, 0))], combine: Combine::SumPlus(1000) });
            let h = vec![
                Step::Session { cells: vec![], writes: vec![Write::Set(0, 1), Write::Set(1, 1)], commit: true },
                Step::Query { roots: vec![nid(Kind::N, 1)], mode: QMode::Seq },
                Step::Session { cells: vec![], writes: vec![Write::Set(0, 2)], commit: true },
                Step::Query { roots: vec![nid(Kind::F, 0)], mode: QMode::Seq },
                Step::Session { cells: vec![], writes: vec![Write::Set(1, 5)], commit: true },
                Step::Query { roots: vec![nid(Kind::N, 1)], mode: QMode::Seq },
            ];
            let rt = tokio::runtime::Builder::new_current_thread().enable_all().build().unwrap();
            let out = rt.block_on(run_sequential(&MemBackend, std::sync::Arc::new(p), &h, qbice::engine::YieldFrequency::Never, 0, None));
            for v in &out.oracle.violations {
                println!("{} {} {}", v.0, v.1, v.2.render());
            }
            println!("violations: {}", out.oracle.violations.len());
        }
        _ => {
            eprintln!("usage: qv run <Cxx> [--tier quick|thorough] [--seed N] [--replay F]");
            std::process::exit(2);
        }
    }
}
