//! C09 - cached maps always return the latest write (read-your-writes).
//!
//! Drives `CacheSingleMap`, `CacheDynamicMap` and `CacheKeyOfSetMap` of
//! `DbBacked<RecKv>` directly. A sequential driver decides, with RecKv's commit
//! gate and the after-commit hook counter, between which two client operations
//! every physical commit and every un-pin notification lands; a plain map is
//! the reference.

use std::{
    collections::{BTreeSet, HashMap},
    sync::Arc,
    time::{Duration, Instant},
};

use dashmap::DashSet;
use fxhash::FxBuildHasher;
use qbice::{Decode, Encode, Identifiable};
use qbice_serialize::Plugin;
use qbice_storage::{
    dynamic_map::DynamicMap,
    key_of_set_map::KeyOfSetMap,
    kv_database::{DiscriminantEncoding, KeyOfSetColumn, WideColumn, WideColumnValue},
    single_map::SingleMap,
    storage_engine::{
        StorageEngine,
        db_backed::{Configuration, DbBacked},
    },
    write_manager::{WriteManager, write_behind::WriteBatch},
};

use crate::{
    hooks,
    reckv::{Grouping, RecKv, Shared},
    sup::{self, CheckMeta, PartSpec, Report, Tier, Violation, WorkerCtx},
    util::{Json, Rng, h64},
};

#[derive(Debug, Clone, Copy, Identifiable)]
pub struct ColS;
impl WideColumn for ColS {
    type Key = u32;
    type Discriminant = u8;
    fn discriminant_encoding() -> DiscriminantEncoding { DiscriminantEncoding::Prefixed }
}
#[derive(Debug, Clone, PartialEq, Eq, Encode, Decode)]
pub struct ValS(pub u64);
impl WideColumnValue<ColS> for ValS {
    fn discriminant() -> u8 { 1 }
}

#[derive(Debug, Clone, Copy, Identifiable)]
pub struct ColD;
impl WideColumn for ColD {
    type Key = u32;
    type Discriminant = u16;
    fn discriminant_encoding() -> DiscriminantEncoding { DiscriminantEncoding::Suffixed }
}
#[derive(Debug, Clone, PartialEq, Eq, Encode, Decode)]
pub struct ValD1(pub u64);
impl WideColumnValue<ColD> for ValD1 {
    fn discriminant() -> u16 { 1 }
}
#[derive(Debug, Clone, PartialEq, Eq, Encode, Decode)]
pub struct ValD2(pub String);
impl WideColumnValue<ColD> for ValD2 {
    fn discriminant() -> u16 { 129 }
}

#[derive(Debug, Clone, Copy, Identifiable)]
pub struct ColK;
impl KeyOfSetColumn for ColK {
    type Key = u32;
    type Element = u64;
}

type Db = DbBacked<RecKv>;
type Set = Arc<DashSet<u64, FxBuildHasher>>;
type Batch = WriteBatch<RecKv>;

pub fn meta(tier: Tier) -> CheckMeta {
    CheckMeta {
        id: "C09",
        level: "exploration",
        rule: "sequential histories of get/insert/remove on a single-value map, a two-type dynamic map and a \
               key-to-set map over 3 hot keys (+ noise keys that force TinyLFU maintenance and eviction), cache \
               capacity 1/2/8, up to 3 open write batches (per key, issue order follows batch creation order), \
               with every physical commit and un-pin notification placed explicitly between client ops through \
               RecKv's commit gate and the after-commit hook counter; sets are grown past the 1024 spill \
               threshold and shrunk back; oracle = plain HashMap / HashMap<K,HashSet> updated at issue time, \
               set reads compared as sets. Plus parallel unique-value histories and rendezvous placements in \
               the fill window. distinct = hash(op sequence, placement, capacity); non-trivial = history in \
               which at least one read hit the backing store after an eviction.",
        assumptions: vec![
            "per key, issue order is consistent with batch creation order (DESIGN 7: the C09/C10 consistency rule)".into(),
            "duplicates yielded by set iteration are counted, not flagged".into(),
        ],
        parts: {
            let mut parts = vec![PartSpec { name: "native", nshards: 16, budget_s: tier.pick(300, 2400), env: vec![], program: None, prepare: None, sanitizer: None }];
            if tier == Tier::Thorough { parts.push(crate::sup::sanitizer_part("miri", 8, tier.pick(900, 2400))); }
            if tier == Tier::Thorough { parts.push(crate::sup::sanitizer_part("tsan", 8, 2400)); }
            parts
        },
        must_be_nonzero: vec![
            ("store_reads_after_eviction", "no read ever went to the backing store"),
            ("commits_placed", "commit gate never used"),
            ("after_commit_notifications", "after-commit hook never hit"),
            ("sets_over_1024", "spill threshold never crossed"),
        ],
    }
}

#[derive(Clone, Debug)]
enum Op {
    NewBatch,
    Submit(usize),
    /// let n physical commits through and wait for their after-commit work
    Commit(u32),
    Churn(u8), // force maintenance: 0 single map, 1 dynamic map, 2 set map
    /// arm: the next read that goes to the backing store (a cache fill) has one commit and its
    /// after-commit work placed inside it - after the store handed out its data, before the
    /// fill continues
    MidCommit,
    SGet(u32),
    SIns(u32, u64),
    SRem(u32),
    D1Get(u32),
    D1Ins(u32, u64),
    D1Rem(u32),
    D2Get(u32),
    D2Ins(u32, u64),
    KGet(u32),
    KIns(u32, u64),
    KRem(u32, u64),
    KGrow(u32, u64, u64), // insert a range of elements
    KShrink(u32, u64, u64),
}

struct World {
    shared: Arc<Shared>,
    wm: <Db as StorageEngine>::WriteManager,
    s: <Db as StorageEngine>::SingleMap<ColS, ValS>,
    d: <Db as StorageEngine>::DynamicMap<ColD>,
    k: <Db as StorageEngine>::KeyOfSetMap<ColK, Set>,
    open: Vec<Option<Batch>>,
    submitted: u64,
    committed_target: u64,
    // model
    ms: HashMap<u32, u64>,
    md1: HashMap<u32, u64>,
    md2: HashMap<u32, String>,
    mk: HashMap<u32, BTreeSet<u64>>,
    // per (map,key) lowest batch index allowed (issue order follows creation order)
    last_batch: HashMap<(u8, u32), usize>,
    ac_base: u64,
}

impl World {
    fn new(cap: u64, workers: usize, seed: u64) -> Self {
        let shared = Shared::new(Grouping::Never, seed);
        shared.gate_on.store(true, std::sync::atomic::Ordering::SeqCst);
        let kv = RecKv::new(shared.clone(), Plugin::default());
        let db = DbBacked::new(
            kv,
            Configuration::builder().cache_capacity(cap).serialization_workers(workers).build(),
        );
        Self {
            wm: db.new_write_manager(),
            s: db.new_single_map::<ColS, ValS>(),
            d: db.new_dynamic_map::<ColD>(),
            k: db.new_key_of_set_map::<ColK, Set>(),
            shared,
            open: Vec::new(),
            submitted: 0,
            committed_target: 0,
            ms: HashMap::new(),
            md1: HashMap::new(),
            md2: HashMap::new(),
            mk: HashMap::new(),
            last_batch: HashMap::new(),
            ac_base: hooks::hit_count("wb:after_commit_done"),
        }
    }

    fn pick_batch(&mut self, r: &mut Rng, map: u8, key: u32) -> Option<usize> {
        let lo = self.last_batch.get(&(map, key)).copied().unwrap_or(0);
        let cands: Vec<usize> =
            (lo..self.open.len()).filter(|i| self.open[*i].is_some()).collect();
        if cands.is_empty() {
            return None;
        }
        let b = *r.pick(&cands);
        self.last_batch.insert((map, key), b);
        Some(b)
    }

    /// wait until `committed_target` physical commits happened and their
    /// after-commit notifications were processed
    fn settle(&self) -> bool {
        let t0 = Instant::now();
        loop {
            let commits = self.shared.commit_count() as u64;
            let ac = hooks::hit_count("wb:after_commit_done") - self.ac_base;
            if commits >= self.committed_target && ac >= self.committed_target {
                return true;
            }
            if t0.elapsed() > Duration::from_secs(10) {
                return false;
            }
            std::thread::sleep(Duration::from_micros(200));
        }
    }
}

fn block<F: std::future::Future>(f: F) -> F::Output { futures::executor::block_on(f) }

fn gen_ops(r: &mut Rng, n: usize, big_sets: bool) -> Vec<Op> {
    let mut v = vec![Op::NewBatch];
    let key = |r: &mut Rng| r.below(3) as u32;
    for _ in 0..n {
        let val = r.next_u64() % 1000;
        let el = r.below(6);
        v.push(match r.below(40) {
            0..=2 => Op::NewBatch,
            3..=5 => Op::Submit(r.usize_below(8)),
            6..=8 => Op::Commit(1 + r.below(2) as u32),
            9..=11 => Op::Churn(r.below(3) as u8),
            12..=14 => Op::SGet(key(r)),
            15..=16 => Op::SIns(key(r), val),
            17 => Op::SRem(key(r)),
            18..=19 => Op::D1Get(key(r)),
            20 => Op::D1Ins(key(r), val),
            21 => Op::D1Rem(key(r)),
            22 => Op::D2Get(key(r)),
            23 => Op::D2Ins(key(r), val),
            24..=28 => Op::KGet(key(r)),
            29..=33 => Op::KIns(key(r), el),
            34..=36 => Op::KRem(key(r), el),
            37 if big_sets => Op::KGrow(key(r), 100, 100 + 600 + r.below(600)),
            37 | 39 => Op::MidCommit,
            38 if big_sets => Op::KShrink(key(r), 100, 100 + 1300),
            _ => Op::KGet(key(r)),
        });
    }
    v
}

struct Fail {
    kind: String,
    detail: String,
    at: usize,
}

fn run_history(ops: &[Op], cap: u64, workers: usize, seed: u64, rep: &mut Report) -> Result<u64, Fail> {
    let mut r = Rng::new(seed);
    let mut w = World::new(cap, workers, seed);
    let reads0 = w.shared.reads.load(std::sync::atomic::Ordering::Relaxed)
        + w.shared.scans.load(std::sync::atomic::Ordering::Relaxed);
    let mut noise = 1000u32;
    let mut fail = None;
    'outer: for (i, op) in ops.iter().enumerate() {
        macro_rules! bad {
            ($k:expr, $($a:tt)*) => {{
                fail = Some(Fail { kind: $k.to_string(), detail: format!($($a)*), at: i });
                break 'outer;
            }};
        }
        match op {
            Op::NewBatch => {
                if w.open.iter().filter(|b| b.is_some()).count() < 3 {
                    w.open.push(Some(w.wm.new_write_batch()));
                }
            }
            Op::Submit(j) => {
                let idxs: Vec<usize> = (0..w.open.len()).filter(|i| w.open[*i].is_some()).collect();
                if !idxs.is_empty() {
                    let b = idxs[*j % idxs.len()];
                    let batch = w.open[b].take().unwrap();
                    w.wm.submit_write_batch(batch);
                    w.submitted += 1;
                }
            }
            Op::Commit(n) => {
                if let Some(f) = w.shared.after_read_once.lock().take() {
                    f(); // armed but no store read happened since: the commit happens now
                    rep.count("commits_placed", 1);
                }
                // commits are in creation order: only batches whose
                // predecessors are all submitted can commit. We release up to
                // n permits for what is committable.
                // a batch can commit only after all older batches were submitted
                let committable = w.open.iter().position(|b| b.is_some()).unwrap_or(w.open.len()) as u64;
                let can = committable.saturating_sub(w.committed_target).min(u64::from(*n));
                if can > 0 {
                    w.committed_target += can;
                    w.shared.release(can);
                    rep.count("commits_placed", can);
                    if !w.settle() {
                        bad!("commit-did-not-happen", "released {can} commits, store has {} of {}", w.shared.commit_count(), w.committed_target);
                    }
                }
            }
            Op::MidCommit => {
                let committable = w.open.iter().position(|b| b.is_some()).unwrap_or(w.open.len()) as u64;
                if committable > w.committed_target && w.shared.after_read_once.lock().is_none() {
                    w.committed_target += 1;
                    let (sh, target, base) = (w.shared.clone(), w.committed_target, w.ac_base);
                    *w.shared.after_read_once.lock() = Some(Box::new(move || {
                        sh.release(1);
                        let t0 = Instant::now();
                        while ((sh.commit_count() as u64) < target || hooks::hit_count("wb:after_commit_done") - base < target) && t0.elapsed() < Duration::from_secs(10) {
                            std::thread::sleep(Duration::from_micros(100));
                        }
                    }));
                    rep.count("commits_armed_inside_a_store_read", 1);
                }
            }
            Op::Churn(m) => {
                for _ in 0..40 {
                    noise += 1;
                    match m {
                        0 => {
                            let _ = block(w.s.get(&noise));
                        }
                        1 => {
                            let _ = block(w.d.get::<ValD1>(&noise));
                        }
                        _ => {
                            let _ = block(w.k.get(&noise)).count();
                        }
                    }
                }
            }
            Op::SGet(k) => {
                let got = block(w.s.get(k)).map(|v| v.0);
                let exp = w.ms.get(k).copied();
                rep.count("reads", 1);
                if got != exp {
                    bad!("single-map-stale-read", "key {k}: got {got:?}, latest write says {exp:?}");
                }
            }
            Op::SIns(k, v) => {
                if let Some(b) = w.pick_batch(&mut r, 0, *k) {
                    let mut batch = w.open[b].take().unwrap();
                    block(w.s.insert(*k, ValS(*v), &mut batch));
                    w.open[b] = Some(batch);
                    w.ms.insert(*k, *v);
                }
            }
            Op::SRem(k) => {
                if let Some(b) = w.pick_batch(&mut r, 0, *k) {
                    let mut batch = w.open[b].take().unwrap();
                    block(w.s.remove(k, &mut batch));
                    w.open[b] = Some(batch);
                    w.ms.remove(k);
                }
            }
            Op::D1Get(k) => {
                let got = block(w.d.get::<ValD1>(k)).map(|v| v.0);
                let exp = w.md1.get(k).copied();
                rep.count("reads", 1);
                if got != exp {
                    bad!("dynamic-map-stale-read", "key {k} type ValD1: got {got:?}, expected {exp:?}");
                }
            }
            Op::D1Ins(k, v) => {
                if let Some(b) = w.pick_batch(&mut r, 1, *k) {
                    let mut batch = w.open[b].take().unwrap();
                    block(w.d.insert(*k, ValD1(*v), &mut batch));
                    w.open[b] = Some(batch);
                    w.md1.insert(*k, *v);
                }
            }
            Op::D1Rem(k) => {
                if let Some(b) = w.pick_batch(&mut r, 1, *k) {
                    let mut batch = w.open[b].take().unwrap();
                    block(w.d.remove::<ValD1>(k, &mut batch));
                    w.open[b] = Some(batch);
                    w.md1.remove(k);
                }
            }
            Op::D2Get(k) => {
                let got = block(w.d.get::<ValD2>(k)).map(|v| v.0);
                let exp = w.md2.get(k).cloned();
                rep.count("reads", 1);
                if got != exp {
                    bad!("dynamic-map-stale-read", "key {k} type ValD2: got {got:?}, expected {exp:?}");
                }
            }
            Op::D2Ins(k, v) => {
                if let Some(b) = w.pick_batch(&mut r, 2, *k) {
                    let mut batch = w.open[b].take().unwrap();
                    let s = format!("s{v}");
                    block(w.d.insert(*k, ValD2(s.clone()), &mut batch));
                    w.open[b] = Some(batch);
                    w.md2.insert(*k, s);
                }
            }
            Op::KGet(k) => {
                let got: Vec<u64> = block(w.k.get(k)).collect();
                let gs: BTreeSet<u64> = got.iter().copied().collect();
                if gs.len() != got.len() {
                    rep.count("set_duplicates_yielded", (got.len() - gs.len()) as u64);
                }
                let exp = w.mk.get(k).cloned().unwrap_or_default();
                rep.count("reads", 1);
                if exp.len() > 1024 {
                    rep.count("sets_over_1024", 1);
                }
                if gs != exp {
                    let missing: Vec<_> = exp.difference(&gs).take(5).collect();
                    let extra: Vec<_> = gs.difference(&exp).take(5).collect();
                    bad!("set-map-stale-read", "key {k}: missing {missing:?} extra {extra:?} (expected {} members, got {})", exp.len(), gs.len());
                }
            }
            Op::KIns(k, e) | Op::KRem(k, e) => {
                if let Some(b) = w.pick_batch(&mut r, 3, *k) {
                    let mut batch = w.open[b].take().unwrap();
                    if matches!(op, Op::KIns(..)) {
                        block(w.k.insert(*k, *e, &mut batch));
                        w.mk.entry(*k).or_default().insert(*e);
                    } else {
                        block(w.k.remove(k, e, &mut batch));
                        w.mk.entry(*k).or_default().remove(e);
                    }
                    w.open[b] = Some(batch);
                }
            }
            Op::KGrow(k, a, z) | Op::KShrink(k, a, z) => {
                if let Some(b) = w.pick_batch(&mut r, 3, *k) {
                    let mut batch = w.open[b].take().unwrap();
                    for e in *a..*z {
                        if matches!(op, Op::KGrow(..)) {
                            block(w.k.insert(*k, e, &mut batch));
                            w.mk.entry(*k).or_default().insert(e);
                        } else {
                            block(w.k.remove(k, &e, &mut batch));
                            w.mk.entry(*k).or_default().remove(&e);
                        }
                    }
                    w.open[b] = Some(batch);
                }
            }
        }
    }
    // drain: submit everything, open the gate, drop the pipeline
    *w.shared.after_read_once.lock() = None;
    let store_reads = w.shared.reads.load(std::sync::atomic::Ordering::Relaxed)
        + w.shared.scans.load(std::sync::atomic::Ordering::Relaxed)
        - reads0;
    for b in w.open.iter_mut() {
        if let Some(batch) = b.take() {
            w.wm.submit_write_batch(batch);
        }
    }
    w.shared.open_gate();
    let World { wm, s, d, k, .. } = w;
    drop(wm);
    drop((s, d, k));
    match fail {
        Some(f) => Err(f),
        None => Ok(store_reads),
    }
}

fn ops_json(ops: &[Op]) -> Json { Json::Arr(ops.iter().map(|o| Json::Str(format!("{o:?}"))).collect()) }

/// Shrink a failing history by deleting ops while it keeps failing the same way.
fn minimise(ops: &[Op], cap: u64, workers: usize, seed: u64, kind: &str) -> Vec<Op> {
    let mut cur = ops.to_vec();
    let mut rep = Report::default();
    let mut chunk = cur.len() / 2;
    while chunk >= 1 {
        let mut i = 0;
        while i + chunk <= cur.len() {
            let mut cand = cur.clone();
            cand.drain(i..i + chunk);
            let still = matches!(run_history(&cand, cap, workers, seed, &mut rep), Err(f) if f.kind == kind);
            if still {
                cur = cand;
            } else {
                i += chunk;
            }
        }
        chunk /= 2;
    }
    cur
}

/// Signature of the known staged-fold defect: the minimised witness touches one
/// element of one set key with >= 2 staged ops and reads that key while it is
/// not cached.
fn classify(min: &[Op], kind: &str) -> String {
    if kind == "set-map-stale-read" {
        let mut per: HashMap<(u32, u64), u32> = HashMap::new();
        for o in min {
            if let Op::KIns(k, e) | Op::KRem(k, e) = o {
                *per.entry((*k, *e)).or_insert(0) += 1;
            }
        }
        let grow = min.iter().any(|o| matches!(o, Op::KGrow(..) | Op::KShrink(..)));
        if !grow && per.values().any(|c| *c >= 2) {
            return "C09/kos-staged-fold: >=2 staged ops on one element of a key that is read while uncached".into();
        }
    }
    format!("C09/{kind}")
}

// ---------------------------------------------------------------------------
// parallel part: one writer per key (so "issued before" is a total order per
// key), several readers per key, churn threads that force eviction, the
// background writer free-running with random commit / read delays.
//
// Writer of key k performs ops s = 1, 2, 3, ...; op s is a remove if s % 5 == 0,
// otherwise insert(k, s). Around every op it publishes started[k] = s before and
// completed[k] = s after. A reader samples lo = completed[k] before and
// hi = started[k] after its read; the read must return the state after some op in
// [lo, hi] (unique values make the observed op identifiable):
//   Some(v): lo <= v <= hi, v is not a remove;   None: lo == 0, or a remove op in [lo, hi].
// Reads of one reader must also never go backwards. Sets: writer inserts element s
// (s odd) and removes element s-LAG (s even): an element whose insert completed before
// the read began and whose remove had not started when it ended must be present; an
// element whose remove completed before the read began must be absent.

fn is_remove(s: u64) -> bool { s % 5 == 0 }
/// set element e (odd) is inserted by op e and removed by op e + LAG
const LAG: u64 = 41;

pub const F1_SIG: &str = "C09/parallel-set-map-stale-cached-entry [a key-to-set read returns a cached set that misses an operation \
issued (and completed) before the read while readers of the same key were filling the cache; re-reading after the entry \
has been evicted returns the right set]";

/// Make every submitted batch durable and its after-commit work done: switch the store
/// to commit-at-once, push one empty batch through, wait for the commit log to hold all
/// logical batches. (Writers must have stopped.)
fn drain(shared: &Arc<Shared>, wm: &<Db as StorageEngine>::WriteManager, submitted: &std::sync::atomic::AtomicU64) -> bool {
    *shared.grouping.lock() = Grouping::Never;
    wm.submit_write_batch(wm.new_write_batch());
    let want = submitted.load(std::sync::atomic::Ordering::SeqCst) + 1;
    let t0 = Instant::now();
    loop {
        let have: usize = shared.log.lock().iter().map(|c| c.logical_batches).sum();
        if have as u64 >= want {
            std::thread::sleep(Duration::from_millis(20));
            return true;
        }
        if t0.elapsed() > Duration::from_secs(120) {
            return false;
        }
        std::thread::sleep(Duration::from_millis(2));
    }
}

pub struct ParOutcome {
    pub reads: u64,
    pub store_reads: u64,
    pub bad: Vec<String>,
}

pub fn parallel_round(cap: u64, workers: usize, keys: usize, readers: usize, ops: u64, grouping: Grouping, seed: u64, delays: bool, sets: bool) -> ParOutcome {
    use std::sync::atomic::{AtomicBool, AtomicU64, Ordering as O};
    let shared = Shared::new(grouping, seed);
    if delays {
        shared.delay_commit_us.store(1 + seed % 300, O::SeqCst);
        shared.delay_read_us.store(seed % 40, O::SeqCst);
    }
    let kv = RecKv::new(shared.clone(), Plugin::default());
    let db = DbBacked::new(kv, Configuration::builder().cache_capacity(cap).serialization_workers(workers).build());
    let wm = Arc::new(db.new_write_manager());
    let sm = Arc::new(db.new_single_map::<ColS, ValS>());
    let km = Arc::new(db.new_key_of_set_map::<ColK, Set>());
    let started: Arc<Vec<AtomicU64>> = Arc::new((0..keys).map(|_| AtomicU64::new(0)).collect());
    let completed: Arc<Vec<AtomicU64>> = Arc::new((0..keys).map(|_| AtomicU64::new(0)).collect());
    let stop = Arc::new(AtomicBool::new(false));
    // set by a reader that saw something wrong: writers stop issuing ops so that the state can be examined
    let pause = Arc::new(AtomicBool::new(false));
    let submitted = Arc::new(AtomicU64::new(0));
    let truth_kv = RecKv::new(shared.clone(), Plugin::default());
    let bad: Arc<parking_lot::Mutex<Vec<String>>> = Arc::new(parking_lot::Mutex::new(Vec::new()));
    let reads = Arc::new(AtomicU64::new(0));
    let mut hs = Vec::new();
    // writers (one per key; every op in its own batch or a few ops per batch, submitted in creation order per writer)
    for k in 0..keys {
        let (wm, sm, km, started, completed, bad, pause, submitted) = (wm.clone(), sm.clone(), km.clone(), started.clone(), completed.clone(), bad.clone(), pause.clone(), submitted.clone());
        let mut r = Rng::new(seed).derive(1000 + k as u64);
        hs.push(std::thread::spawn(move || {
            let key = k as u32;
            let mut s = 0u64;
            while s < ops && bad.lock().is_empty() && !pause.load(O::SeqCst) {
                let mut batch = wm.new_write_batch();
                for _ in 0..1 + r.usize_below(3) {
                    s += 1;
                    started[k].store(s, O::SeqCst);
                    if is_remove(s) {
                        block(sm.remove(&key, &mut batch));
                    } else {
                        block(sm.insert(key, ValS(s), &mut batch));
                    }
                    if !sets {
                    } else if s % 2 == 1 {
                        block(km.insert(key, s, &mut batch));
                    } else if s > LAG {
                        block(km.remove(&key, &(s - LAG), &mut batch));
                    }
                    completed[k].store(s, O::SeqCst);
                    if r.chance(1, 4) {
                        std::thread::yield_now();
                    }
                }
                wm.submit_write_batch(batch);
                submitted.fetch_add(1, O::SeqCst);
            }
        }));
    }
    // readers
    for ri in 0..readers {
        let (sm, km, started, completed, bad, stop, reads, pause) = (sm.clone(), km.clone(), started.clone(), completed.clone(), bad.clone(), stop.clone(), reads.clone(), pause.clone());
        let (wm, submitted, shared, truth_kv) = (wm.clone(), submitted.clone(), shared.clone(), truth_kv.clone());
        let mut r = Rng::new(seed).derive(2000 + ri as u64);
        hs.push(std::thread::spawn(move || {
            let mut last_seen: Vec<u64> = vec![0; started.len()];
            while !stop.load(O::SeqCst) {
                let k = r.usize_below(started.len());
                let key = k as u32;
                if !sets || r.chance(2, 3) {
                    let lo = completed[k].load(O::SeqCst);
                    let got = block(sm.get(&key)).map(|v| v.0);
                    let hi = started[k].load(O::SeqCst);
                    reads.fetch_add(1, O::Relaxed);
                    let ok = match got {
                        Some(v) => v >= lo && v <= hi && !is_remove(v) && (lo..=v).skip(1).all(|_| true),
                        None => lo == 0 || (lo..=hi).any(is_remove),
                    };
                    // the newest op completed before the read decides unless a later one had started
                    let newest_ok = match got {
                        Some(v) => v >= lo || (lo..=hi).any(|x| x == v),
                        None => true,
                    };
                    if !ok || !newest_ok {
                        bad.lock().push(format!("single map key {key}: read returned {got:?} but ops 1..={lo} had completed and at most {hi} had started (remove ops are multiples of 5)"));
                        break;
                    }
                    if let Some(v) = got {
                        if v < last_seen[k] {
                            bad.lock().push(format!("single map key {key}: a reader saw value {} and later the older value {v}", last_seen[k]));
                            break;
                        }
                        last_seen[k] = v;
                    }
                } else {
                    let lo = completed[k].load(O::SeqCst);
                    let got: BTreeSet<u64> = block(km.get(&key)).collect();
                    let hi = started[k].load(O::SeqCst);
                    reads.fetch_add(1, O::Relaxed);
                    // element e (odd) is inserted by op e and removed by op e + LAG
                    for e in (1..=hi).step_by(2) {
                        let must_have = e <= lo && e + LAG > hi;
                        let must_not = e + LAG <= lo;
                        let wrong = (must_have && !got.contains(&e)) || (must_not && got.contains(&e));
                        if !wrong {
                            continue;
                        }
                        // stop the writers, let in-flight ops finish, then look again: at once, and
                        // after the cached entry has been pushed out by cold keys
                        pause.store(true, O::SeqCst);
                        std::thread::sleep(Duration::from_millis(20));
                        // drain the write-behind pipeline: afterwards the store alone is the truth
                        // (nothing staged), so whatever differs from it can only be the cached entry
                        let drained = drain(&shared, &wm, &submitted);
                        let now = completed[k].load(O::SeqCst);
                        let expect_now = e <= now && e + LAG > now;
                        let store: BTreeSet<u64> = qbice_storage::kv_database::KvDatabase::scan_members::<ColK>(&truth_kv, &key).collect();
                        let again: BTreeSet<u64> = block(km.get(&key)).collect();
                        let refetched = &store;
                        let tag = if !drained {
                            "undecided: pipeline did not drain"
                        } else if store.contains(&e) != expect_now {
                            "store-wrong"
                        } else if again.contains(&e) != expect_now {
                            "cached-entry"
                        } else {
                            // right now: the entry that served the wrong read is gone (evicted) - or the
                            // staging area / store was wrong at the time; cannot be told apart afterwards
                            "cached-entry-or-transient"
                        };
                        bad.lock().push(format!(
                            "set map key {key}: element {e} {} although op {} had completed before the read began ({lo}..{hi}; insert = op {e}, remove = op {}) [writers stopped at op {now}, pipeline drained: read again: {}; store: {}; expected: {}] [{tag}]",
                            if must_not { "present" } else { "missing" },
                            if must_not { e + LAG } else { e },
                            e + LAG,
                            if again.contains(&e) { "present" } else { "absent" },
                            if refetched.contains(&e) { "present" } else { "absent" },
                            if expect_now { "present" } else { "absent" },
                        ));
                        return;
                    }
                    if let Some(x) = got.iter().find(|x| **x > hi || **x % 2 == 0) {
                        bad.lock().push(format!("set map key {key}: element {x} was never inserted (ops started: {hi})"));
                        return;
                    }
                }
            }
        }));
    }
    // churn: cold keys through both caches
    {
        let (sm, km, stop) = (sm.clone(), km.clone(), stop.clone());
        hs.push(std::thread::spawn(move || {
            let mut n = 10_000u32;
            while !stop.load(O::SeqCst) {
                n += 1;
                let _ = block(sm.get(&n));
                let _ = block(km.get(&n)).count();
                if n % 64 == 0 {
                    std::thread::yield_now();
                }
            }
        }));
    }
    let nwriters = keys;
    for (i, h) in hs.into_iter().enumerate() {
        if i == nwriters {
            stop.store(true, std::sync::atomic::Ordering::SeqCst);
        }
        let _ = h.join();
    }
    stop.store(true, std::sync::atomic::Ordering::SeqCst);
    // final state after the writers are done: exactly the last op per key
    let mut out_bad = std::mem::take(&mut *bad.lock());
    if out_bad.is_empty() {
        for k in 0..keys {
            let key = k as u32;
            let last = completed[k].load(std::sync::atomic::Ordering::SeqCst);
            let exp = if last == 0 || is_remove(last) { None } else { Some(last) };
            let got = block(sm.get(&key)).map(|v| v.0);
            if got != exp {
                out_bad.push(format!("single map key {key}: after all writes completed a read returns {got:?}, the last op ({last}) says {exp:?}"));
            }
            if !sets {
                continue;
            }
            let got: BTreeSet<u64> = block(km.get(&key)).collect();
            let exp: BTreeSet<u64> = (1..=last).step_by(2).filter(|e| e + LAG > last).collect();
            if got != exp {
                let drained = drain(&shared, &wm, &submitted);
                let refetched: BTreeSet<u64> = qbice_storage::kv_database::KvDatabase::scan_members::<ColK>(&truth_kv, &key).collect();
                let tag = if !drained { "undecided: pipeline did not drain" } else if refetched == exp { "cached-entry" } else { "store-wrong" };
                out_bad.push(format!("set map key {key}: content after all writes completed is {got:?}, expected {exp:?}; the store (pipeline drained) holds {refetched:?} [{tag}]"));
            }
        }
    }
    let store_reads = shared.reads.load(std::sync::atomic::Ordering::Relaxed) + shared.scans.load(std::sync::atomic::Ordering::Relaxed);
    drop((sm, km));
    drop(wm);
    drop(db);
    ParOutcome { reads: reads.load(std::sync::atomic::Ordering::Relaxed), store_reads, bad: out_bad }
}

pub fn worker(ctx: &WorkerCtx) -> Report {
    let mut rep = if std::env::var("QV_C09_PAR_ONLY").is_ok() { hooks::install(); Report::default() } else { worker_seq(ctx) };
    // parallel readers / writers on shared keys
    let base = Rng::new(ctx.seed).derive(9900 + ctx.shard as u64);
    let n = if ctx.part == "miri" { 1 } else { ctx.pick(40u64, 1200) };
    let mut reported: std::collections::HashSet<String> = std::collections::HashSet::new();
    for i in 0..n {
        let mut r = base.derive(i);
        let miri = ctx.part == "miri";
        let cap = *r.pick(&[1u64, 1, 2, 8]);
        let workers = *r.pick(&[1usize, 2, 4]);
        let keys = if miri { 1 } else { 1 + r.usize_below(3) };
        let readers = if miri { 1 } else { 1 + r.usize_below(4) };
        let ops = if miri { 12 } else { 200 + r.below(1500) };
        let grouping = *r.pick(&[Grouping::Never, Grouping::Random(4), Grouping::Always]);
        let delays = r.chance(1, 2);
        let seed = r.next_u64();
        // half of the rounds leave the key-to-set map alone (a stale set read ends a round at
        // its first detection, which would otherwise starve the single-value map)
        let sets = i % 2 == 0;
        let case = format!("C09 parallel round {i} cap={cap} workers={workers} keys={keys} readers={readers} ops={ops} grouping={grouping:?} delays={delays} maps={}", if sets { "single+set" } else { "single" });
        ctx.announce(&case);
        let out = parallel_round(cap, workers, keys, readers, ops, grouping, seed, delays, sets);
        rep.evaluations += 1;
        rep.count("parallel_rounds", 1);
        rep.count("parallel_reads_checked", out.reads);
        rep.count("parallel_store_reads", out.store_reads);
        if out.store_reads > 0 && out.reads > 0 {
            rep.distinct.insert(h64(&("par", cap, workers, keys, readers, ops, seed)));
        }
        if let Some(b) = out.bad.first().filter(|b| b.contains("[undecided")) {
            rep.inconclusive.push(format!("{case}: {b}"));
        } else if let Some(b) = out.bad.first() {
            rep.count("violations", 1);
            let sig = if b.starts_with("set map") && (b.ends_with("[cached-entry]") || b.ends_with("[cached-entry-or-transient]")) {
                        F1_SIG.to_string()
                    } else {
                        format!("C09/parallel-{}", if b.starts_with("set map") { "set-map-stale-or-lost" } else { "single-map-stale-read" })
                    };
            if reported.insert(sig.clone()) {
                ctx.violation(&Violation {
                    signature: sig,
                    what: b.clone(),
                    witness: Json::obj().set("case", case.as_str()).set("seed", seed).set("all", Json::Arr(out.bad.iter().take(5).map(|x| Json::Str(x.clone())).collect())),
                });
            }
        }
    }
    rep
}

fn worker_seq(ctx: &WorkerCtx) -> Report {
    hooks::install();
    let mut rep = Report::default();
    let n: u64 = if ctx.part == "miri" { 2 } else { ctx.pick(3000, 60_000) };
    let base = Rng::new(ctx.seed).derive(900 + ctx.shard as u64);
    let mut reported = std::collections::HashSet::new();
    // directed histories around the 1024-element spill: a set larger than the threshold is
    // committed, then part of it is removed / other elements are added in an open batch, and
    // the set is read while the removals are only staged (the read merges a partially loaded
    // set, the rest of the store scan and the staging area)
    let ndirected = if ctx.part == "miri" { 0 } else { ctx.pick(12u64, 120) };
    for i in 0..n + ndirected {
        let mut r = base.derive(i);
        let cap = *r.pick(&[1u64, 1, 2, 2, 8]);
        let workers = *r.pick(&[1usize, 2]);
        let big = i % 10 == 9;
        let len = if big { 30 } else { 20 + r.usize_below(ctx.pick(120, 300)) };
        let ops = if i >= n {
            let lo = 100 + r.below(50);
            let hi = lo + 1000 + r.below(300);
            let keep_low = r.below(4);
            let keep_high = hi + 1 + r.below(40);
            let mut ops = vec![Op::NewBatch, Op::KGrow(2, lo, hi)];
            for e in 0..keep_low {
                ops.push(Op::KIns(2, 1 + e));
            }
            if r.chance(1, 2) {
                ops.push(Op::KIns(2, keep_high));
            }
            ops.extend([Op::Submit(0), Op::Commit(2), Op::Churn(2), Op::NewBatch]);
            // remove everything, a prefix, a suffix or a middle part of the big range
            let (a, b) = match r.below(4) {
                0 => (lo, hi + 150),
                1 => (lo, lo + r.below(hi - lo)),
                2 => (lo + r.below(hi - lo), hi),
                _ => {
                    let a = lo + r.below(hi - lo);
                    (a, a + r.below(hi - a + 1))
                }
            };
            ops.push(Op::KShrink(2, a, b));
            if r.chance(1, 2) {
                ops.push(Op::KIns(2, 5000 + r.below(10)));
            }
            ops.push(Op::KGet(2));
            if r.chance(1, 2) {
                ops.extend([Op::Submit(0), Op::Commit(2), Op::KGet(2), Op::Churn(2), Op::KGet(2)]);
            } else if r.chance(1, 2) {
                // the second batch commits while the set is being loaded from the store
                ops.extend([Op::Submit(0), Op::Churn(2), Op::MidCommit, Op::KGet(2), Op::KGet(2)]);
            }
            rep.count("directed_spill_histories", 1);
            ops
        } else {
            gen_ops(&mut r, len, big)
        };
        let seed = r.next_u64();
        ctx.announce(&format!("C09 seq history {i} cap={cap} workers={workers} len={len}"));
        rep.evaluations += 1;
        match run_history(&ops, cap, workers, seed, &mut rep) {
            Ok(store_reads) => {
                rep.count("store_reads_after_eviction", store_reads);
                if store_reads > 0 {
                    rep.distinct.insert(h64(&(format!("{ops:?}"), cap, workers)));
                }
                if i == 0 {
                    rep.sample(Json::obj().set("cap", cap).set("workers", workers).set("ops", ops_json(&ops[..ops.len().min(40)])));
                }
            }
            Err(f) => {
                let min = minimise(&ops[..=f.at.min(ops.len() - 1)], cap, workers, seed, &f.kind);
                let sig = classify(&min, &f.kind);
                if reported.insert(sig.clone()) {
                    ctx.violation(&Violation {
                        signature: sig,
                        what: format!("{}: {}", f.kind, f.detail),
                        witness: Json::obj()
                            .set("cap", cap)
                            .set("workers", workers)
                            .set("history_seed", seed)
                            .set("failed_at_op", f.at)
                            .set("minimised_ops", ops_json(&min))
                            .set("original_len", ops.len()),
                    });
                } else {
                    rep.count("repeat_violations_same_signature", 1);
                }
            }
        }
    }
    rep.count("after_commit_notifications", hooks::hit_count("wb:after_commit_done"));
    let _ = sup::panic_mark();
    rep
}
