//! qv - runtime-monitoring harness for Simmypeet/qbice (see /verif/DESIGN.md).
#![allow(clippy::all)]
#![allow(dead_code, unused_imports)]

pub mod c01;
pub mod c02;
pub mod c04;
pub mod c05;
pub mod c06;
pub mod c07;
pub mod c08;
pub mod c09;
pub mod c10;
#[cfg(any(feature = "rocksdb", feature = "fjall"))]
pub mod c11;
pub mod c12;
pub mod c13;
pub mod c14;
pub mod c15;
pub mod c16;
pub mod eng;
pub mod gen_types;
pub mod hooks;
pub mod model;
pub mod reckv;
pub mod sup;
pub mod universe;
pub mod util;
pub mod values;
