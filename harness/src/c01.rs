//! C01 (incremental == from-scratch) and C03 (only justified work) share one
//! workload: sequential histories over generated programs, two checkers.

use std::collections::{BTreeMap, BTreeSet};
use std::sync::Arc;

use qbice::engine::YieldFrequency;

use crate::{
    eng::{
        Backend, HistParams, MemBackend, Prerepair, RecBackend, RunOutcome, Step, gen_history, history_json,
        run_sequential, violation_from,
    },
    model::{GenParams, Program, gen_family, gen_program},
    reckv::Grouping,
    sup::{CheckMeta, PartSpec, Report, Tier, WorkerCtx},
    util::{Json, Rng, h64},
};

pub fn meta(id: &'static str, tier: Tier) -> CheckMeta {
    let rule = if id == "C01" {
        "case = (generated acyclic program over In/N/F/P/X nodes with Read/ReadIf/Unordered/Join/Spawn/Yield ops \
         and absorbing combine functions, or one of 6 hand-shaped families incl. fan-in/out across the 32 \
         threshold) x (sequential history of sessions [set/update/refresh, no-op writes, A->B->A, late inputs, \
         commit or drop] and query steps [seq / join_all / spawned]) x storage config (InMemory | \
         DbBacked<RecKv> cap 1..64, 1-2 serializer workers, grouping Never/Random/Always) x runtime \
         (current_thread | multi_thread 2/4) x yield frequency; oracle: every user-level return, every value \
         handed to an executor, every executor result and every SetInputResult equals the from-scratch \
         reference evaluator. distinct = hash(program, history, config); non-trivial = the history re-executed \
         at least one node and served at least one node without re-executing it although a dependency was \
         re-executed (cut-off)."
    } else {
        "same runs as C01; every executor invocation is judged: justified iff never computed, or a dependency \
         read in its previous run has a different reference value now; at most once per epoch; X only on \
         first demand or refresh; unchanged sessions dirty nothing. Verdicts only on C01-silent history \
         prefixes. distinct/non-trivial as C01 (>=1 justified re-execution and >=1 cut-off)."
    };
    CheckMeta {
        id,
        level: "exploration",
        rule,
        assumptions: vec![
            "executors are pure interpreters of the program table; values are i64 (128-bit fingerprint collisions out of scope)".into(),
            "unsupported usage is not exercised: concurrent sessions, projections over non-firewalls, querying unset inputs".into(),
        ],
        parts: {
            let mut parts = vec![PartSpec {
            name: "native",
            nshards: 16,
            budget_s: tier.pick(300, 2400),
            env: vec![],
            program: None,
            prepare: None,
            sanitizer: None,
        }];
            if tier == Tier::Thorough && id == "C01" { parts.push(crate::sup::sanitizer_part("miri", 8, tier.pick(900, 2400))); }
            if tier == Tier::Thorough && id == "C01" { parts.push(crate::sup::sanitizer_part("tsan", 8, 2400)); }
            parts
        },
        must_be_nonzero: vec![
            ("reexecutions", "no re-execution observed"),
            ("cutoffs", "no early cut-off observed"),
            ("cases_fan_over_32", "no fan-in/out above 32 exercised"),
        ],
    }
}

#[derive(Clone, Debug)]
pub struct CaseCfg {
    pub backend: String,
    pub rt_workers: usize, // 0 = current_thread
    pub yield_every: Option<usize>,
    pub exec_yields: u32,
}

pub struct Case {
    pub prog: Arc<Program>,
    pub history: Vec<Step>,
    pub fan: u32,
}

/// A tiny case for the interpreter-speed sanitizer part (Miri).
pub fn make_small_case(seed: u64, idx: u64) -> (Case, Rng) {
    let mut r = Rng::new(seed).derive(idx.wrapping_mul(7919) + 77);
    let prog = if idx % 3 == 2 {
        let which = *r.pick(&[0u64, 1, 2, 5]);
        gen_family(&mut r, which, 2)
    } else {
        let gp = GenParams { inputs: 2, xs: 1, nodes: 3 + r.below(4) as u32, max_ops: 2, p_firewall: 30, p_projection: 25, fancy_ops: true };
        gen_program(&mut r, &gp)
    };
    let hp = HistParams { steps: 5 + r.usize_below(4), restarts: false, par: false, late_inputs: false };
    let history = gen_history(&mut r, &prog, &hp);
    (Case { prog: Arc::new(prog), history, fan: 0 }, r)
}

/// Deterministic case construction from (seed, index).
pub fn make_case(seed: u64, idx: u64, tier: Tier, restarts: bool) -> (Case, Rng) {
    let mut r = Rng::new(seed).derive(idx.wrapping_mul(7919) + 1);
    let mut fan = 0;
    let mut flip_family = false;
    let mut fan_family = false;
    let prog = if idx % 5 == 4 {
        let which = r.below(7);
        flip_family = which == 6;
        fan_family = which == 1;
        let scale = match which {
            // (1 = projection fan over one firewall, each projection with its own consumer: the
            // fan crosses the chunking of the backward projection, 4 x available_parallelism)
            1 | 3 | 4 => {
                let s = if idx % 25 == 4 { tier.pick(40, 1100) as u32 } else { *r.pick(&[3u32, 31, 32, 33, 34, 40, 70, 130]) };
                fan = s;
                s
            }
            _ => 2 + r.below(5) as u32,
        };
        gen_family(&mut r, which, scale)
    } else {
        let gp = GenParams {
            inputs: 2 + r.below(4) as u32,
            xs: r.below(3) as u32,
            nodes: 4 + r.below(tier.pick(28, 50)) as u32,
            max_ops: 1 + r.usize_below(4),
            p_firewall: 10 + r.below(30),
            p_projection: r.below(30),
            fancy_ops: r.chance(3, 4),
        };
        gen_program(&mut r, &gp)
    };
    let hp = HistParams {
        steps: 8 + r.usize_below(tier.pick(55, 120)),
        restarts,
        par: r.chance(1, 3),
        late_inputs: true,
    };
    let mut history = gen_history(&mut r, &prog, &hp);
    if fan > 0 && fan_family && r.chance(3, 4) {
        history = fresh_projection_history(&mut r, fan);
    }
    if flip_family && r.chance(1, 2) {
        if let Some(h) = tfc_flip_history(&mut r, &prog) {
            history = h;
        }
    }
    (Case { prog: Arc::new(prog), history, fan }, r)
}

/// Directed history for the projection-fan family (`gen_family` 1): in every epoch the input of
/// the firewall changes and, concurrently, consumers that were computed before (their request
/// repairs the firewall, which then walks its callers - backward projection) and consumers that
/// are asked for the *first time* (their projections are being computed and registered as callers
/// of the firewall meanwhile) are requested. This is the schedule behind the engine panic
/// repaired by the last `fix:` commit ("a query is discoverable before its input is stored");
/// random histories reached it about once in 240 000 cases.
pub fn fresh_projection_history(r: &mut Rng, scale: u32) -> Vec<Step> {
    use crate::eng::{QMode, Write};
    use crate::model::{nid, Kind};
    let n = scale.max(2);
    let sess = |ws: Vec<Write>| Step::Session { cells: vec![], writes: ws, commit: true };
    let mut vals: Vec<i64> = (0..4).map(|_| r.range(-3, 6)).collect();
    let mut h = vec![sess((0..4).map(|i| Write::Set(i, vals[i as usize])).collect())];
    let first = (n / 4).max(1);
    h.push(Step::Query { roots: (0..first).map(|i| nid(Kind::N, i)).collect(), mode: QMode::Seq });
    let mut next = first;
    // many epochs with few first-time consumers each: every epoch is one chance for a first
    // completion to coincide with the firewall's walk over its callers
    let per = 1 + r.below(3) as u32;
    let epochs = ((n - first) / per).clamp(1, 48);
    for _ in 0..epochs {
        let j = r.usize_below(4);
        vals[j] += 1 + r.range(0, 2);
        h.push(sess(vec![Write::Set(j as u32, vals[j])]));
        let mut roots = Vec::new();
        let fresh: Vec<u32> = (next..(next + per).min(n)).collect();
        next = (next + per).min(n);
        // old and new consumers alternate, so that every task of `Par(k)` gets both
        for (k, f) in fresh.iter().enumerate() {
            roots.push(nid(Kind::N, (k as u32 * 7 + 1) % first.max(1)));
            roots.push(nid(Kind::N, *f));
        }
        if roots.is_empty() {
            roots.push(nid(Kind::N, 0));
        }
        let k = 2 + r.usize_below(3);
        h.push(Step::Query { roots, mode: QMode::Par(k) });
    }
    h.push(Step::Query { roots: vec![nid(Kind::N, 1_000_000)], mode: QMode::Seq });
    h
}

/// Directed history for the conditional-firewall chain family (`gen_family` 6): the leaf is
/// moved onto the firewall branch, off it and onto it again by edits that leave its value
/// unchanged (so everything above it is cleaned, never recomputed), one node of the chain is
/// requested after every edit, and then the input behind the firewall changes. Random histories
/// produce this "A, B, A, then a change behind A" order only a few times in 19 200 cases (it is
/// what the defect repaired by 45842a5 needed); here the values are searched for with the
/// reference evaluator.
fn tfc_flip_history(r: &mut Rng, prog: &crate::model::Program) -> Option<Vec<Step>> {
    use crate::eng::{QMode, Write};
    use crate::model::{nid, Eval, Kind};
    use std::collections::HashMap;
    let leaf = nid(Kind::N, 0);
    let chain: Vec<crate::model::NodeId> = prog.nodes.keys().copied().filter(|n| n.kind == Kind::N && n.idx >= 2).collect();
    if chain.is_empty() {
        return None;
    }
    let (ins, _) = crate::model::inputs_of(prog);
    let ev = |a: i64, u: i64, w: i64, n: crate::model::NodeId| -> (i64, bool) {
        let inputs: HashMap<u32, i64> = [(0, a), (1, u), (2, w)].into_iter().collect();
        let mut xc = HashMap::new();
        let cells = HashMap::new();
        let mut e = Eval::new(prog, &inputs, &mut xc, &cells, false);
        let v = e.eval(n);
        let on_firewall = e.reads.get(&leaf).is_some_and(|rs| rs.iter().any(|(d, _)| d.kind == Kind::F));
        (v, on_firewall)
    };
    for _ in 0..400 {
        let (a, b, u, u2, w) = (r.range(-3, 6), r.range(-3, 6), r.range(-3, 6), r.range(-3, 6), r.range(-3, 6));
        let top = chain[r.usize_below(chain.len())];
        let (la, fa) = ev(a, u, w, leaf);
        let (lb, fb) = ev(b, u, w, leaf);
        if !(fa && !fb && la == lb) || ev(a, u, w, top).0 == ev(a, u2, w, top).0 {
            continue;
        }
        let sess = |ws: Vec<Write>| Step::Session { cells: vec![], writes: ws, commit: true };
        let ask = |n: crate::model::NodeId| Step::Query { roots: vec![n], mode: QMode::Seq };
        // the leaf starts on the firewall branch (a) or off it (b: the queries above then
        // have to *learn* about the firewall from a clean repair alone - seeded change C01-a)
        // and always ends on it
        let start_on = r.chance(1, 2);
        let flips = if start_on { 2 * (1 + r.usize_below(2)) } else { 1 + 2 * r.usize_below(2) };
        let mut on = start_on;
        let mut first = vec![Write::Set(0, if on { a } else { b }), Write::Set(1, u)];
        if ins.contains(&2) {
            first.push(Write::Set(2, w));
        }
        let mut h = vec![sess(first), ask(top)];
        for _ in 0..flips {
            on = !on;
            h.push(sess(vec![Write::Set(0, if on { a } else { b })]));
            h.push(ask(top));
        }
        h.push(sess(vec![Write::Set(1, u2)]));
        h.push(ask(top));
        let all: Vec<crate::model::NodeId> = prog.nodes.keys().copied().collect();
        h.push(Step::Query { roots: all, mode: QMode::Seq });
        return Some(h);
    }
    None
}

pub fn run_on<B: Backend>(b: &B, case: &Case, cfg: &CaseCfg) -> Result<RunOutcome, String> {
    run_on_mode(b, case, cfg, false)
}

pub fn run_on_mode<B: Backend>(b: &B, case: &Case, cfg: &CaseCfg, prerepair: bool) -> Result<RunOutcome, String> {
    run_on_from(b, case, cfg, if prerepair { Some(Prerepair { from_step: 0, only: None }) } else { None })
}

/// First query step of the epoch that contains history step `step`.
pub fn epoch_start(history: &[Step], step: usize) -> usize {
    let mut i = step.min(history.len().saturating_sub(1));
    while i > 0 && !matches!(history[i], Step::Session { .. }) {
        i -= 1;
    }
    i
}

pub fn run_on_from<B: Backend>(b: &B, case: &Case, cfg: &CaseCfg, prerepair: Option<Prerepair>) -> Result<RunOutcome, String> {
    let yf = cfg.yield_every.map_or(YieldFrequency::Never, YieldFrequency::EveryNQuery);
    let rt = if cfg.rt_workers == 0 {
        tokio::runtime::Builder::new_current_thread().enable_all().build()
    } else {
        tokio::runtime::Builder::new_multi_thread().worker_threads(cfg.rt_workers).enable_all().build()
    }
    .map_err(|e| e.to_string())?;
    let out = rt.block_on(run_sequential(b, case.prog.clone(), &case.history, yf, cfg.exec_yields, prerepair.as_ref()));
    rt.shutdown_timeout(std::time::Duration::from_secs(2));
    Ok(out)
}

#[derive(Clone, Debug)]
pub enum BackendSpec {
    Mem,
    Rec { cap: u64, workers: usize, grouping: Grouping, seed: u64 },
}

impl BackendSpec {
    pub fn rec(&self) -> Option<RecBackend> {
        match self {
            Self::Mem => None,
            Self::Rec { cap, workers, grouping, seed } => Some(RecBackend::new(*cap, *workers, *grouping, *seed)),
        }
    }
}

pub fn pick_cfg(r: &mut Rng) -> (CaseCfg, BackendSpec) {
    let rt_workers = *r.pick(&[0usize, 0, 2, 4]);
    let yield_every = *r.pick(&[None, None, Some(0usize), Some(3)]);
    let exec_yields = *r.pick(&[0u32, 0, 1]);
    if r.chance(2, 5) || std::env::var("QV_FORCE_MEM").is_ok() {
        (CaseCfg { backend: "InMemory".into(), rt_workers, yield_every, exec_yields }, BackendSpec::Mem)
    } else {
        let cap = *r.pick(&[1u64, 1, 2, 8, 64, 1 << 18]);
        let workers = *r.pick(&[1usize, 2]);
        let grouping = *r.pick(&[Grouping::Never, Grouping::Never, Grouping::Random(4), Grouping::Always]);
        let spec = BackendSpec::Rec { cap, workers, grouping, seed: r.next_u64() };
        let d = spec.rec().unwrap().describe();
        (CaseCfg { backend: d, rt_workers, yield_every, exec_yields }, spec)
    }
}

/// Run a case; returns the outcome and the RecKv backend used (if any).
pub fn run_spec(spec: &BackendSpec, case: &Case, cfg: &CaseCfg, prerepair: Option<Prerepair>) -> (Result<RunOutcome, String>, Option<RecBackend>) {
    let dbg = prerepair.as_ref().map(|p| (p.from_step, p.only.as_ref().map(|o| o.values().map(|s| s.len()).sum::<usize>())));
    let out = run_spec_inner(spec, case, cfg, prerepair);
    if std::env::var("QV_CF_DEBUG").is_ok() {
        if let (Some(d), Ok(o)) = (dbg, &out.0) {
            eprintln!("CF from={} only={:?} first_step={:?} viol={:?} precond={:?}", d.0, d.1, o.oracle.first_c01_step, o.oracle.violations.iter().take(2).map(|v| format!("{} {}", v.1, v.2.render())).collect::<Vec<_>>(), o.oracle.f1_precondition_epochs);
        }
    }
    out
}

fn run_spec_inner(spec: &BackendSpec, case: &Case, cfg: &CaseCfg, prerepair: Option<Prerepair>) -> (Result<RunOutcome, String>, Option<RecBackend>) {
    match spec.rec() {
        Some(b) => (run_on_from(&b, case, cfg, prerepair.clone()), Some(b)),
        None => (run_on_from(&MemBackend, case, cfg, prerepair), None),
    }
}

pub const C03_F1_SIG: &str = "C03/projection-rerun-by-backward-projection [a projection is re-executed although every dependency has the value it \
read in its previous run: a firewall/projection below it was re-executed since (or in the same epoch as) that run, and \
backward projection always recomputes]";

pub const F1_SIG: &str = "C01/stale-value-above-unrepaired-firewall [classifier: the same case passes when the user \
repairs the transitive firewall callees of every computed node before each query step]";

pub fn case_json(seed: u64, idx: u64, case: &Case, cfg: &CaseCfg) -> Json {
    Json::obj()
        .set("seed", seed)
        .set("case_index", idx)
        .set("config", format!("{cfg:?}"))
        .set("program", case.prog.to_json())
        .set("history", history_json(&case.history))
}

pub fn worker(ctx: &WorkerCtx, prop: &str) -> Report {
    let mut rep = Report::default();
    let ncases: u64 = if ctx.part == "miri" { 1 } else { ctx.pick(1200, 15_000) };
    let only: Option<u64> = ctx.replay.as_ref().and_then(|p| {
        let s = std::fs::read_to_string(p).ok()?;
        let j = Json::parse(&s).ok()?;
        j.get("witness")?.get("case")?.get("case_index")?.as_i().map(|x| x as u64)
    });
    let only = only.or_else(|| std::env::var("QV_ONLY_CASE").ok().and_then(|s| s.parse().ok()));
    for k in 0..ncases {
        let idx = k * ctx.nshards as u64 + ctx.shard as u64;
        if let Some(o) = only {
            if o != idx {
                continue;
            }
        }
        let (case, mut r) = if ctx.part == "miri" { make_small_case(ctx.seed, idx) } else { make_case(ctx.seed, idx, ctx.tier, false) };
        let (mut cfg, spec) = pick_cfg(&mut r);
        if ctx.part == "miri" {
            cfg.rt_workers = cfg.rt_workers.min(2);
        }
        ctx.announce(&format!("{prop} case {idx} cfg={cfg:?} nodes={} steps={}", case.prog.nodes.len(), case.history.len()));
        let (out, rec) = run_spec(&spec, &case, &cfg, None);
        let out = match out {
            Ok(o) => o,
            Err(e) => {
                rep.inconclusive.push(format!("case {idx}: {e}"));
                continue;
            }
        };
        rep.evaluations += 1;
        let st = &out.oracle.stats;
        rep.count("query_returns", st.query_returns);
        rep.count("exec_records", st.exec_records);
        rep.count("exec_reads", st.exec_reads);
        rep.count("reexecutions", st.reexecutions);
        rep.count("cutoffs", st.cutoffs);
        rep.count("sessions", st.sessions);
        rep.count("set_results", st.set_results);
        rep.count("x_refreshes", st.x_refreshes);
        rep.count("x_captures_adopted_from_engine_records", st.x_captures_adopted_from_engine);
        rep.count("unchanged_sessions", st.unchanged_sessions);
        rep.count(if rec.is_some() { "cases_dbbacked_reckv" } else { "cases_inmemory" }, 1);
        if case.fan > 32 {
            rep.count("cases_fan_over_32", 1);
        }
        if case.fan > 1024 {
            rep.count("cases_fan_over_1024", 1);
        }
        if let Some(b) = &rec {
            rep.count("reckv_physical_commits", b.shared.commit_count() as u64);
            rep.count("reckv_store_reads", b.shared.reads.load(std::sync::atomic::Ordering::Relaxed));
        }
        if !out.shutdown_ok {
            rep.inconclusive.push(format!("case {idx}: engine still referenced at shutdown"));
        }
        if st.reexecutions > 0 && st.cutoffs > 0 {
            rep.distinct.insert(h64(&(case.prog.shape_hash(), format!("{:?}", case.history), &cfg.backend, cfg.rt_workers)));
        }
        if k == 0 {
            rep.sample(case_json(ctx.seed, idx, &case, &cfg));
        }
        let cj = case_json(ctx.seed, idx, &case, &cfg);
        let mut out = out;
        if out.oracle.c01_violated {
            // classify: is this the known finding C01-F1?
            rep.count("cases_reclassified_counterfactually", 1);
            // counterfactual: the user repairs the firewalls below every computed
            // node at every query step from the epoch of the first violation on
            // (not earlier: repairing in earlier epochs would also hide defects
            // in how firewall state is carried from one epoch to the next)
            let mut from = epoch_start(&case.history, out.oracle.first_c01_step.unwrap_or(0));
            // ... and only of the queries that *executors* read at that step
            // (the finding is about executor-level reads; a stale answer that
            // involves no executor-level read is not this finding). Repairing
            // can make further executors run, so the set is grown to a fixpoint.
            // (On a multi-thread runtime a re-run can show the finding in an
            // earlier epoch than the first run did: `from` follows.)
            let mut targets: BTreeMap<usize, BTreeSet<crate::model::NodeId>> = out.exec_read_targets.clone();
            let mut cf = Err("not run".to_string());
            for round in 0..8 {
                let (c, _) = run_spec(&spec, &case, &cfg, Some(Prerepair { from_step: from, only: Some(targets.clone()) }));
                rep.count("counterfactual_runs", 1);
                let mut grown = false;
                if let Ok(c) = &c {
                    if c.oracle.c01_violated {
                        for (st, set) in &c.exec_read_targets {
                            let e = targets.entry(*st).or_default();
                            for n in set {
                                grown |= e.insert(*n);
                            }
                        }
                        let f2 = epoch_start(&case.history, c.oracle.first_c01_step.unwrap_or(0));
                        if f2 < from {
                            from = f2;
                            grown = true;
                        }
                    }
                }
                cf = c;
                if !grown {
                    break;
                }
                rep.max("counterfactual_rounds", round + 2);
            }
            // The first wrong observation of the failing run: the finding's own symptom is an
            // executor that is handed a stale value.
            let first_is_executor_read = out.oracle.violations.iter().find(|v| v.0 == "C01").is_some_and(|v| v.1 == "executor-read-stale");
            if (cfg.rt_workers > 0 || first_is_executor_read) && !matches!(&cf, Ok(c) if !c.oracle.c01_violated) {
                // Fall back to the user repairing below every computed query (what the
                // finding's signature says) in two situations: on a multi-thread runtime, where
                // the set of executor-level reads differs from run to run; and when the first
                // wrong observation is itself a stale executor-level read but repairing only
                // below the queries executors read is not enough (firewalls that depend on
                // each other through normal queries: the stale node is hidden behind a
                // firewall that only some other query's repair reaches). A wrong answer that
                // involves no executor-level read never takes this path.
                rep.count(if cfg.rt_workers > 0 { "narrow_counterfactual_failed_on_multithread_case" } else { "narrow_counterfactual_failed_after_stale_executor_read" }, 1);
                for _ in 0..4 {
                    let (c, _) = run_spec(&spec, &case, &cfg, Some(Prerepair { from_step: from, only: None }));
                    rep.count("counterfactual_runs", 1);
                    let mut lowered = false;
                    if let Ok(c) = &c {
                        if c.oracle.c01_violated {
                            let f2 = epoch_start(&case.history, c.oracle.first_c01_step.unwrap_or(0));
                            if f2 < from {
                                from = f2;
                                lowered = true;
                            }
                        }
                    }
                    cf = c;
                    if !lowered {
                        break;
                    }
                }
            }
            // The finding's other face: the firewall repair of a *user* request works from the
            // requested query's own set of firewalls, and that set is only brought up to date
            // when the query is verified. A root that has not been verified since a query below
            // it changed its dependencies (and so may have started to read a new firewall) has
            // an outdated set through no fault of the bookkeeping; the repair then descends with
            // query-level callers, which never repair firewalls - the finding. No executor runs
            // in that case, so the narrowed repair has nothing to work on: the user's repair of
            // everything below the requested roots decides. A root that *was* verified after the
            // last dependency change below it must know its firewalls (seeded change C01-a).
            let first_is_user_value = out.oracle.violations.iter().find(|v| v.0 == "C01").is_some_and(|v| v.1 == "user-value-differs");
            if first_is_user_value && !matches!(&cf, Ok(c) if !c.oracle.c01_violated) {
                let step = out.oracle.first_c01_step.unwrap_or(0);
                let roots: Vec<crate::model::NodeId> = match case.history.get(step) {
                    Some(Step::Query { roots, .. }) => roots.clone(),
                    _ => vec![],
                };
                let unverified_since_change = out.oracle.at_first_c01.as_ref().is_some_and(|(verified, changed)| {
                    roots.iter().any(|r| {
                        let l = verified.get(r).copied().unwrap_or(0);
                        crate::eng::closure(&case.prog, &[*r]).iter().any(|d| changed.get(d).copied().unwrap_or(0) > l)
                    })
                });
                if unverified_since_change {
                    rep.count("counterfactual_below_roots_not_verified_since_a_dependency_change", 1);
                    let mut only: BTreeMap<usize, BTreeSet<crate::model::NodeId>> = targets.clone();
                    for (i, st) in case.history.iter().enumerate().skip(from) {
                        if let Step::Query { roots, .. } = st {
                            only.entry(i).or_default().extend(crate::eng::closure(&case.prog, roots));
                        }
                    }
                    let (c, _) = run_spec(&spec, &case, &cfg, Some(Prerepair { from_step: from, only: Some(only) }));
                    rep.count("counterfactual_runs", 1);
                    cf = c;
                }
            }
            // A latent occurrence. The finding can strike one epoch and show in the next: an
            // executor-level read verifies a query Q below a still-dirty firewall; the firewall is
            // repaired later in that epoch and dirties Q's edge, but a caller of Q that is verified
            // after that finds Q stamped as verified in this epoch, keeps its value and *cleans its
            // own edge to Q*. Nothing wrong was handed out yet (the stale values were not asked for,
            // or happened to equal the right ones). In the next epoch Q is recomputed, its caller's
            // edge is clean, and the caller is stale for good. The repair therefore has to start in
            // the epoch of the latent occurrence, with the same narrowing as above (only below the
            // queries executors read on a single-thread runtime) ...
            if !matches!(&cf, Ok(c) if !c.oracle.c01_violated) && (first_is_user_value || first_is_executor_read) {
                // ... but only into epochs in which the oracle saw the finding's precondition: an
                // executor read a query above a firewall that was out of date and had not been
                // repaired before that executor started (`f1_precondition_epochs`). Without such an
                // observation nothing is moved (seeded change C01-a: no executor reads above a
                // stale firewall anywhere in the history - it stays a violation).
                let session_steps: Vec<usize> = case.history.iter().enumerate().filter(|(_, s)| matches!(s, Step::Session { .. })).map(|(i, _)| i).collect();
                let viol_epoch = session_steps.iter().filter(|i| **i <= out.oracle.first_c01_step.unwrap_or(0)).count() as u64;
                let earlier: Vec<u64> = out.oracle.f1_precondition_epochs.iter().rev().copied().filter(|e| *e < viol_epoch && *e >= 1).take(3).collect();
                'back: for (back, e) in earlier.iter().enumerate() {
                    let Some(f) = session_steps.get(*e as usize - 1).copied() else { continue };
                    if f >= from {
                        continue;
                    }
                    for _ in 0..4 {
                        let only = if cfg.rt_workers > 0 { None } else { Some(targets.clone()) };
                        let (c, _) = run_spec(&spec, &case, &cfg, Some(Prerepair { from_step: f, only }));
                        rep.count("counterfactual_runs", 1);
                        let mut grown = false;
                        if matches!(&c, Ok(c) if !c.oracle.c01_violated) {
                            rep.count("counterfactual_cleared_from_an_earlier_epoch_latent_occurrence", 1);
                            rep.max("latent_occurrence_candidates_tried", back as u64 + 1);
                            cf = c;
                            break 'back;
                        }
                        if let Ok(c) = &c {
                            for (st, set) in &c.exec_read_targets {
                                let e = targets.entry(*st).or_default();
                                for n in set {
                                    grown |= e.insert(*n);
                                }
                            }
                        }
                        if !grown || cfg.rt_workers > 0 {
                            break;
                        }
                    }
                }
            }
            // An external-input query captures its cell when it is first demanded. If an earlier,
            // invisible occurrence of the finding (the stale value happened to equal the right
            // one) made the engine skip that demand, the capture happens in a later epoch with
            // another cell value: the first *visible* difference is then a value of an X node,
            // and only a repair from the very beginning lines the capture times up again.
            // The same holds for the counterfactual run itself: a repair that starts in the middle
            // of the history removes the finding from there on and thereby shifts later captures;
            // if what is left of the counterfactual run starts with a value of an X node, the
            // repair from the very beginning decides.
            let involves_x = |o: &crate::eng::Oracle| {
                o.violations.iter().find(|v| v.0 == "C01").is_some_and(|v| {
                    let d = &v.2;
                    d.get("dep").and_then(Json::as_str).is_some_and(|x| x.starts_with('X')) || d.get("node").and_then(Json::as_str).is_some_and(|x| x.starts_with('X'))
                })
            };
            let first_is_external_capture = involves_x(&out.oracle) || matches!(&cf, Ok(c) if c.oracle.c01_violated && involves_x(&c.oracle));
            if first_is_external_capture && !matches!(&cf, Ok(c) if !c.oracle.c01_violated) {
                rep.count("counterfactual_from_the_first_step_for_external_input_capture_time", 1);
                let (c, _) = run_spec(&spec, &case, &cfg, Some(Prerepair { from_step: 0, only: None }));
                rep.count("counterfactual_runs", 1);
                cf = c;
            }
            match cf {
                Ok(cf) if !cf.oracle.c01_violated => {
                    rep.count("cases_attributed_to_C01-F1", 1);
                    if prop == "C01" {
                        let first = out.oracle.violations.iter().find(|v| v.0 == "C01").cloned();
                        if let Some((_, kind, detail)) = first {
                            let mut v = violation_from("C01", &kind, &detail, &cj);
                            v.signature = F1_SIG.to_string();
                            ctx.violation(&v);
                        }
                        continue;
                    }
                    // C03 is judged on the counterfactual run of this case
                    out = cf;
                }
                _ => {}
            }
        }
        for (p, kind, detail) in &out.oracle.violations {
            if p == prop || (prop == "C01" && p == "C02") {
                let mut v = violation_from(p, kind, detail, &cj);
                if kind == "projection-rerun-on-ABA-firewall" {
                    v.signature = C03_F1_SIG.to_string();
                }
                ctx.violation(&v);
            } else {
                rep.count(&format!("other_property_flags_{p}"), 1);
            }
        }
    }
    rep
}
