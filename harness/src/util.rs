//! Small utilities: PRNG, JSON writer, hashing, process CPU time.

use std::{
    collections::BTreeMap,
    fmt::Write as _,
    hash::{Hash, Hasher},
};

/// SplitMix64 PRNG (deterministic, seedable, no dependency).
#[derive(Clone, Debug)]
pub struct Rng(pub u64);

impl Rng {
    pub fn new(seed: u64) -> Self { Self(seed ^ 0x9E37_79B9_7F4A_7C15) }

    pub fn derive(&self, stream: u64) -> Self {
        let mut r = Self(self.0 ^ stream.wrapping_mul(0xD6E8_FEB8_6659_FD93));
        r.next_u64();
        r.next_u64();
        r
    }

    pub fn next_u64(&mut self) -> u64 {
        self.0 = self.0.wrapping_add(0x9E37_79B9_7F4A_7C15);
        let mut z = self.0;
        z = (z ^ (z >> 30)).wrapping_mul(0xBF58_476D_1CE4_E5B9);
        z = (z ^ (z >> 27)).wrapping_mul(0x94D0_49BB_1331_11EB);
        z ^ (z >> 31)
    }

    /// uniform in 0..n (n>0)
    pub fn below(&mut self, n: u64) -> u64 {
        if n <= 1 {
            return 0;
        }
        self.next_u64() % n
    }

    pub fn usize_below(&mut self, n: usize) -> usize {
        self.below(n as u64) as usize
    }

    /// inclusive range
    pub fn range(&mut self, lo: i64, hi: i64) -> i64 {
        if hi <= lo {
            return lo;
        }
        lo + self.below((hi - lo + 1) as u64) as i64
    }

    pub fn chance(&mut self, num: u64, den: u64) -> bool {
        self.below(den) < num
    }

    pub fn pick<'a, T>(&mut self, xs: &'a [T]) -> &'a T {
        &xs[self.usize_below(xs.len())]
    }

    pub fn shuffle<T>(&mut self, xs: &mut [T]) {
        for i in (1..xs.len()).rev() {
            let j = self.usize_below(i + 1);
            xs.swap(i, j);
        }
    }

    pub fn bytes(&mut self, n: usize) -> Vec<u8> {
        (0..n).map(|_| self.next_u64() as u8).collect()
    }
}

/// Stable 64-bit hash of anything `Hash` (FxHasher; process independent).
pub fn h64<T: Hash + ?Sized>(t: &T) -> u64 {
    let mut h = fxhash::FxHasher64::default();
    t.hash(&mut h);
    h.finish()
}

/// Minimal JSON value.
#[derive(Clone, Debug, PartialEq)]
pub enum Json {
    Null,
    Bool(bool),
    Int(i128),
    Num(f64),
    Str(String),
    Arr(Vec<Json>),
    Obj(Vec<(String, Json)>),
}

impl Json {
    pub fn obj() -> Self { Self::Obj(Vec::new()) }

    pub fn set(mut self, k: &str, v: impl Into<Json>) -> Self {
        self.put(k, v);
        self
    }

    pub fn put(&mut self, k: &str, v: impl Into<Json>) {
        if let Self::Obj(o) = self {
            if let Some(e) = o.iter_mut().find(|e| e.0 == k) {
                e.1 = v.into();
            } else {
                o.push((k.to_string(), v.into()));
            }
        }
    }

    pub fn get(&self, k: &str) -> Option<&Json> {
        match self {
            Self::Obj(o) => o.iter().find(|e| e.0 == k).map(|e| &e.1),
            _ => None,
        }
    }

    pub fn as_str(&self) -> Option<&str> {
        match self {
            Self::Str(s) => Some(s),
            _ => None,
        }
    }

    pub fn as_i(&self) -> Option<i128> {
        match self {
            Self::Int(i) => Some(*i),
            Self::Num(f) => Some(*f as i128),
            _ => None,
        }
    }

    pub fn as_arr(&self) -> Option<&[Json]> {
        match self {
            Self::Arr(a) => Some(a),
            _ => None,
        }
    }

    pub fn render(&self) -> String {
        let mut s = String::new();
        self.write(&mut s);
        s
    }

    fn write(&self, out: &mut String) {
        match self {
            Self::Null => out.push_str("null"),
            Self::Bool(b) => {
                let _ = write!(out, "{b}");
            }
            Self::Int(i) => {
                let _ = write!(out, "{i}");
            }
            Self::Num(f) => {
                if f.is_finite() {
                    let _ = write!(out, "{f}");
                } else {
                    out.push_str("null");
                }
            }
            Self::Str(s) => write_json_str(out, s),
            Self::Arr(a) => {
                out.push('[');
                for (i, v) in a.iter().enumerate() {
                    if i > 0 {
                        out.push(',');
                    }
                    v.write(out);
                }
                out.push(']');
            }
            Self::Obj(o) => {
                out.push('{');
                for (i, (k, v)) in o.iter().enumerate() {
                    if i > 0 {
                        out.push(',');
                    }
                    write_json_str(out, k);
                    out.push(':');
                    v.write(out);
                }
                out.push('}');
            }
        }
    }

    /// Parse (subset sufficient for files we write ourselves and for
    /// known_findings.json).
    pub fn parse(s: &str) -> Result<Json, String> {
        let b = s.as_bytes();
        let mut i = 0;
        let v = parse_val(b, &mut i)?;
        skip_ws(b, &mut i);
        if i != b.len() {
            return Err(format!("trailing data at {i}"));
        }
        Ok(v)
    }
}

fn write_json_str(out: &mut String, s: &str) {
    out.push('"');
    for c in s.chars() {
        match c {
            '"' => out.push_str("\\\""),
            '\\' => out.push_str("\\\\"),
            '\n' => out.push_str("\\n"),
            '\r' => out.push_str("\\r"),
            '\t' => out.push_str("\\t"),
            c if (c as u32) < 0x20 => {
                let _ = write!(out, "\\u{:04x}", c as u32);
            }
            c => out.push(c),
        }
    }
    out.push('"');
}

fn skip_ws(b: &[u8], i: &mut usize) {
    while *i < b.len() && (b[*i] as char).is_ascii_whitespace() {
        *i += 1;
    }
}

fn parse_val(b: &[u8], i: &mut usize) -> Result<Json, String> {
    skip_ws(b, i);
    if *i >= b.len() {
        return Err("eof".into());
    }
    match b[*i] {
        b'n' => {
            *i += 4;
            Ok(Json::Null)
        }
        b't' => {
            *i += 4;
            Ok(Json::Bool(true))
        }
        b'f' => {
            *i += 5;
            Ok(Json::Bool(false))
        }
        b'"' => parse_str(b, i).map(Json::Str),
        b'[' => {
            *i += 1;
            let mut v = Vec::new();
            loop {
                skip_ws(b, i);
                if *i < b.len() && b[*i] == b']' {
                    *i += 1;
                    break;
                }
                v.push(parse_val(b, i)?);
                skip_ws(b, i);
                if *i < b.len() && b[*i] == b',' {
                    *i += 1;
                }
            }
            Ok(Json::Arr(v))
        }
        b'{' => {
            *i += 1;
            let mut v = Vec::new();
            loop {
                skip_ws(b, i);
                if *i < b.len() && b[*i] == b'}' {
                    *i += 1;
                    break;
                }
                let k = parse_str(b, i)?;
                skip_ws(b, i);
                if *i >= b.len() || b[*i] != b':' {
                    return Err(format!("expected : at {i}"));
                }
                *i += 1;
                let val = parse_val(b, i)?;
                v.push((k, val));
                skip_ws(b, i);
                if *i < b.len() && b[*i] == b',' {
                    *i += 1;
                }
            }
            Ok(Json::Obj(v))
        }
        _ => {
            let st = *i;
            while *i < b.len()
                && matches!(b[*i], b'-' | b'+' | b'.' | b'e' | b'E' | b'0'..=b'9')
            {
                *i += 1;
            }
            let t = std::str::from_utf8(&b[st..*i]).unwrap();
            if let Ok(n) = t.parse::<i128>() {
                Ok(Json::Int(n))
            } else {
                t.parse::<f64>().map(Json::Num).map_err(|e| format!("{e} at {st}"))
            }
        }
    }
}

fn parse_str(b: &[u8], i: &mut usize) -> Result<String, String> {
    if b[*i] != b'"' {
        return Err(format!("expected string at {i}"));
    }
    *i += 1;
    let mut out = Vec::new();
    while *i < b.len() {
        match b[*i] {
            b'"' => {
                *i += 1;
                return String::from_utf8(out).map_err(|e| e.to_string());
            }
            b'\\' => {
                *i += 1;
                match b[*i] {
                    b'n' => out.push(b'\n'),
                    b't' => out.push(b'\t'),
                    b'r' => out.push(b'\r'),
                    b'u' => {
                        let h = std::str::from_utf8(&b[*i + 1..*i + 5]).unwrap();
                        let c = u32::from_str_radix(h, 16).unwrap();
                        let mut buf = [0u8; 4];
                        out.extend_from_slice(
                            char::from_u32(c).unwrap_or('?').encode_utf8(&mut buf).as_bytes(),
                        );
                        *i += 4;
                    }
                    c => out.push(c),
                }
                *i += 1;
            }
            c => {
                out.push(c);
                *i += 1;
            }
        }
    }
    Err("unterminated string".into())
}

impl From<bool> for Json {
    fn from(v: bool) -> Self { Self::Bool(v) }
}
impl From<&str> for Json {
    fn from(v: &str) -> Self { Self::Str(v.to_string()) }
}
impl From<String> for Json {
    fn from(v: String) -> Self { Self::Str(v) }
}
impl From<f64> for Json {
    fn from(v: f64) -> Self { Self::Num(v) }
}
macro_rules! json_int {
    ($($t:ty),*) => {$(impl From<$t> for Json { fn from(v: $t) -> Self { Self::Int(v as i128) } })*};
}
json_int!(i8, i16, i32, i64, i128, u8, u16, u32, u64, usize, isize);
impl<T: Into<Json>> From<Vec<T>> for Json {
    fn from(v: Vec<T>) -> Self { Self::Arr(v.into_iter().map(Into::into).collect()) }
}
impl<T: Into<Json>> From<Option<T>> for Json {
    fn from(v: Option<T>) -> Self { v.map_or(Self::Null, Into::into) }
}
impl From<BTreeMap<String, u64>> for Json {
    fn from(v: BTreeMap<String, u64>) -> Self {
        Self::Obj(v.into_iter().map(|(k, v)| (k, Json::Int(v as i128))).collect())
    }
}

/// utime+stime of a process in clock ticks (from /proc/<pid>/stat).
pub fn proc_cpu_ticks(pid: u32) -> Option<u64> {
    let s = std::fs::read_to_string(format!("/proc/{pid}/stat")).ok()?;
    let rest = &s[s.rfind(')')? + 2..];
    let f: Vec<&str> = rest.split_whitespace().collect();
    // after ')' : state(0) ppid(1) ... utime is field 14 overall => index 11
    let ut: u64 = f.get(11)?.parse().ok()?;
    let st: u64 = f.get(12)?.parse().ok()?;
    Some(ut + st)
}

pub fn hex(b: &[u8]) -> String {
    let mut s = String::with_capacity(b.len() * 2);
    for x in b {
        let _ = write!(s, "{x:02x}");
    }
    s
}
