//! C15 - interning is canonical under concurrency and survives encoding.

use std::{
    sync::{
        Arc,
        atomic::{AtomicBool, AtomicU64, Ordering},
    },
    time::Duration,
};

use parking_lot::Mutex;
use qbice::{Decode, Encode, Identifiable, StableHash};
use qbice_serialize::{Decoder, Encoder, Plugin, PostcardDecoder, PostcardEncoder};
use qbice_stable_hash::{SeededStableHasherBuilder, Sip128Hasher};
use qbice_storage::intern::{Interned, Interner};

use crate::{
    hooks::{self, PointPolicy},
    sup::{CheckMeta, PartSpec, Report, Tier, Violation, WorkerCtx},
    util::{Json, Rng, h64},
};

pub fn meta(tier: Tier) -> CheckMeta {
    CheckMeta {
        id: "C15",
        level: "exploration",
        rule: "2-16 threads over one Interner (with / without the vacuum thread at 1 ms, plus explicit vacuum() calls, \
               2-16 shards), value domain 8-32 values per type for u64, String, str, [u8] and a derived struct; ops \
               intern / intern_unsized / get_from_hash / clone / drop / vacuum with seeded delays in the \
               read-miss -> write-lock window. Online monitor: a registry value -> (pointer, live count); a thread \
               registers a handle right after obtaining it and unregisters it right before dropping it, so a \
               registered pointer always belongs to a live handle: obtaining a handle whose pointer differs from a \
               registered one proves two live allocations of equal values. Also *handle == value, handles of \
               different types never share an allocation. Encoding: structures with repeated handles decode (with \
               the same and with a fresh interner) to equal values whose equal handles are pointer-equal, also \
               for equal content under different types. distinct = hash(round config); non-trivial = round in \
               which an entry was dropped to zero handles and interned again (revival) at least once.",
        assumptions: vec!["interleavings are sampled; the monitor itself is sound (no false alarm by construction)".into()],
        parts: {
            let mut parts = vec![PartSpec { name: "native", nshards: 8, budget_s: tier.pick(300, 2400), env: vec![], program: None, prepare: None, sanitizer: None }];
            if tier == Tier::Thorough { parts.push(crate::sup::sanitizer_part("miri", 8, tier.pick(900, 2400))); }
            if tier == Tier::Thorough { parts.push(crate::sup::sanitizer_part("tsan", 8, 2400)); }
            parts
        },
        must_be_nonzero: vec![("revivals", "no value was dropped to zero handles and interned again"), ("hook_hits_intern_miss", "read-miss window never reached")],
    }
}

#[derive(Debug, Clone, PartialEq, Eq, Hash, StableHash, Identifiable, Encode, Decode)]
pub struct Rec {
    pub a: u32,
    pub b: String,
}

#[derive(Default)]
struct Slot {
    ptr: usize,
    live: u32,
    ever_zero_after_use: bool,
}

struct Registry {
    // [type][value]
    slots: Vec<Vec<Mutex<Slot>>>,
    revivals: AtomicU64,
    bad: Mutex<Vec<String>>,
}

impl Registry {
    fn new(types: usize, domain: usize) -> Self {
        Self {
            slots: (0..types).map(|_| (0..domain).map(|_| Mutex::new(Slot::default())).collect()).collect(),
            revivals: AtomicU64::new(0),
            bad: Mutex::new(Vec::new()),
        }
    }

    fn register(&self, ty: usize, v: usize, ptr: usize, how: &str) {
        let mut s = self.slots[ty][v].lock();
        if s.live > 0 {
            if s.ptr != ptr {
                self.bad.lock().push(format!("type {ty} value {v}: obtained allocation {ptr:#x} via {how} while {} live registered handle(s) point to {:#x}", s.live, s.ptr));
            }
        } else {
            if s.ever_zero_after_use {
                self.revivals.fetch_add(1, Ordering::Relaxed);
            }
            s.ptr = ptr;
        }
        s.live += 1;
    }

    fn unregister(&self, ty: usize, v: usize) {
        let mut s = self.slots[ty][v].lock();
        s.live -= 1;
        if s.live == 0 {
            s.ever_zero_after_use = true;
        }
    }
}

enum H {
    U(Interned<u64>),
    S(Interned<String>),
    Str(Interned<str>),
    B(Interned<[u8]>),
    R(Interned<Rec>),
}

fn vu(i: usize) -> u64 { 1000 + i as u64 }
fn vs(i: usize) -> String { format!("value-{i}") }
fn vb(i: usize) -> Vec<u8> { vec![i as u8, 0, 255, (i * 7) as u8] }
fn vr(i: usize) -> Rec { Rec { a: i as u32, b: format!("r{i}") } }

fn ptr_of<T: ?Sized>(h: &Interned<T>) -> usize { (&**h as *const T).cast::<u8>() as usize }

fn obtain(int: &Interner, r: &mut Rng, ty: usize, v: usize, reg: &Registry) -> Option<H> {
    let by_hash = r.chance(1, 4);
    match ty {
        0 => {
            let val = vu(v);
            let h = if by_hash { int.get_from_hash::<u64>(int.hash_128(&val))? } else { int.intern(val) };
            if *h != val {
                reg.bad.lock().push(format!("u64 handle content {} != interned value {}", *h, val));
            }
            reg.register(ty, v, ptr_of(&h), if by_hash { "get_from_hash" } else { "intern" });
            Some(H::U(h))
        }
        1 => {
            let val = vs(v);
            let h = if by_hash { int.get_from_hash::<String>(int.hash_128(&val))? } else { int.intern(val.clone()) };
            if *h != val {
                reg.bad.lock().push(format!("String handle content {:?} != {:?}", *h, val));
            }
            reg.register(ty, v, ptr_of(&h), if by_hash { "get_from_hash" } else { "intern" });
            Some(H::S(h))
        }
        2 => {
            let val = vs(v);
            let h = if by_hash {
                int.get_from_hash::<str>(int.hash_128(val.as_str()))?
            } else if r.chance(1, 2) {
                int.intern_unsized::<str, String>(val.clone())
            } else {
                int.intern_unsized::<str, Box<str>>(val.clone().into_boxed_str())
            };
            if &*h != val.as_str() {
                reg.bad.lock().push(format!("str handle content {:?} != {:?}", &*h, val));
            }
            reg.register(ty, v, ptr_of(&h), if by_hash { "get_from_hash" } else { "intern_unsized" });
            Some(H::Str(h))
        }
        3 => {
            let val = vb(v);
            let h = if by_hash { int.get_from_hash::<[u8]>(int.hash_128(val.as_slice()))? } else { int.intern_unsized::<[u8], Vec<u8>>(val.clone()) };
            if &*h != val.as_slice() {
                reg.bad.lock().push("[u8] handle content differs".into());
            }
            reg.register(ty, v, ptr_of(&h), if by_hash { "get_from_hash" } else { "intern_unsized" });
            Some(H::B(h))
        }
        _ => {
            let val = vr(v);
            let h = if by_hash { int.get_from_hash::<Rec>(int.hash_128(&val))? } else { int.intern(val.clone()) };
            if *h != val {
                reg.bad.lock().push("Rec handle content differs".into());
            }
            reg.register(ty, v, ptr_of(&h), if by_hash { "get_from_hash" } else { "intern" });
            Some(H::R(h))
        }
    }
}

fn clone_h(h: &H) -> H {
    match h {
        H::U(x) => H::U(x.clone()),
        H::S(x) => H::S(x.clone()),
        H::Str(x) => H::Str(x.clone()),
        H::B(x) => H::B(x.clone()),
        H::R(x) => H::R(x.clone()),
    }
}

pub struct RoundCfg {
    pub threads: usize,
    pub domain: usize,
    pub shards: usize,
    pub vacuum_thread: bool,
    pub ops: usize,
    pub delay: bool,
}

pub fn round(c: &RoundCfg, seed: u64) -> (Vec<String>, u64) {
    let hasher = SeededStableHasherBuilder::<Sip128Hasher>::new(seed);
    let int = if c.vacuum_thread { Interner::new_with_vacuum(c.shards, hasher, Duration::from_millis(1)) } else { Interner::new(c.shards, hasher) };
    let reg = Arc::new(Registry::new(5, c.domain));
    if c.delay {
        hooks::set_point(PointPolicy::Delay { max_us: 30, num: 1, den: 3 });
    }
    let stop = Arc::new(AtomicBool::new(false));
    let mut hs = Vec::new();
    for t in 0..c.threads {
        let int = int.clone();
        let reg = reg.clone();
        let (domain, ops) = (c.domain, c.ops);
        let mut r = Rng::new(seed).derive(t as u64 + 1);
        hs.push(std::thread::spawn(move || {
            // handles held by this thread: (type, value, handle)
            let mut held: Vec<(usize, usize, H)> = Vec::new();
            for _ in 0..ops {
                match r.below(10) {
                    0..=4 => {
                        let (ty, v) = (r.usize_below(5), r.usize_below(domain));
                        if let Some(h) = obtain(&int, &mut r, ty, v, &reg) {
                            held.push((ty, v, h));
                        }
                    }
                    5 if !held.is_empty() => {
                        let i = r.usize_below(held.len());
                        let (ty, v) = (held[i].0, held[i].1);
                        let c = clone_h(&held[i].2);
                        let p = match &c {
                            H::U(x) => ptr_of(x),
                            H::S(x) => ptr_of(x),
                            H::Str(x) => ptr_of(x),
                            H::B(x) => ptr_of(x),
                            H::R(x) => ptr_of(x),
                        };
                        reg.register(ty, v, p, "clone");
                        held.push((ty, v, c));
                    }
                    6..=8 if !held.is_empty() => {
                        let i = r.usize_below(held.len());
                        let (ty, v, h) = held.swap_remove(i);
                        reg.unregister(ty, v);
                        drop(h);
                    }
                    _ => {
                        if r.chance(1, 3) {
                            int.vacuum();
                        } else {
                            int.request_vacuum();
                        }
                    }
                }
                if held.len() > 24 {
                    let (ty, v, h) = held.swap_remove(0);
                    reg.unregister(ty, v);
                    drop(h);
                }
            }
            for (ty, v, h) in held {
                reg.unregister(ty, v);
                drop(h);
            }
        }));
    }
    for h in hs {
        if h.join().is_err() {
            reg.bad.lock().push("worker thread panicked".into());
        }
    }
    stop.store(true, Ordering::SeqCst);
    hooks::set_point(PointPolicy::Off);
    let bad = reg.bad.lock().clone();
    (bad, reg.revivals.load(Ordering::Relaxed))
}

fn enc<T: Encode>(v: &T, p: &Plugin) -> Vec<u8> {
    let mut b = Vec::new();
    PostcardEncoder::new(&mut b).encode(v, p).unwrap();
    b
}

fn dec<T: Decode>(b: &[u8], p: &Plugin) -> Result<T, String> {
    std::panic::catch_unwind(std::panic::AssertUnwindSafe(|| PostcardDecoder::new(b).decode::<T>(p)))
        .map_err(|e| e.downcast_ref::<String>().cloned().or_else(|| e.downcast_ref::<&str>().map(|s| (*s).to_string())).unwrap_or_else(|| "panic".into()))?
        .map_err(|e| e.to_string())
}

fn plugin_with(int: &Interner) -> Plugin {
    let mut p = Plugin::new();
    p.insert(int.clone());
    p
}

/// encoding / sharing checks; returns violations
pub fn encoding_checks(r: &mut Rng) -> Vec<String> {
    let mut bad = Vec::new();
    let mk = || Interner::new(4, SeededStableHasherBuilder::<Sip128Hasher>::new(3));
    let a = mk();
    let pa = plugin_with(&a);
    // 1. Vec with repeats
    let n = 2 + r.usize_below(6);
    let v: Vec<Interned<String>> = (0..12).map(|_| a.intern(vs(r.usize_below(n)))).collect();
    let bytes = enc(&v, &pa);
    // first occurrence inline, later ones by reference: every distinct text
    // appears exactly once in the byte stream
    for i in 0..n {
        let text = vs(i);
        if v.iter().any(|h| **h == text) {
            let occ = bytes.windows(text.len()).filter(|w| *w == text.as_bytes()).count();
            if occ != 1 {
                bad.push(format!("repeated handles are not encoded by reference (value {text:?} appears {occ} times in the encoding)"));
            }
        }
    }
    for (which, p) in [("same interner", pa), ("fresh interner", plugin_with(&mk()))] {
        match dec::<Vec<Interned<String>>>(&bytes, &p) {
            Ok(d) => {
                if d.len() != v.len() || d.iter().zip(&v).any(|(x, y)| **x != **y) {
                    bad.push(format!("Vec<Interned<String>> decodes to different values ({which})"));
                }
                for i in 0..d.len() {
                    for j in 0..d.len() {
                        if *d[i] == *d[j] && ptr_of(&d[i]) != ptr_of(&d[j]) {
                            bad.push(format!("decoded equal handles {i},{j} do not share an allocation ({which})"));
                        }
                    }
                }
                if which == "same interner" && d.iter().zip(&v).any(|(x, y)| ptr_of(x) != ptr_of(y)) {
                    bad.push("decoded handle does not share the allocation of the live original".into());
                }
            }
            Err(e) => bad.push(format!("Vec<Interned<String>> fails to decode ({which}): {e}")),
        }
    }
    // 2. nested + unsized + same content under different types
    let b = mk();
    let pb = plugin_with(&b);
    let text = vs(r.usize_below(4));
    let t1: (Interned<String>, Interned<str>, Interned<String>, Interned<str>) =
        (b.intern(text.clone()), b.intern_unsized::<str, String>(text.clone()), b.intern(text.clone()), b.intern_unsized::<str, String>(text.clone()));
    let bytes = enc(&t1, &pb);
    for (which, p) in [("same interner", plugin_with(&b)), ("fresh interner", plugin_with(&mk()))] {
        match dec::<(Interned<String>, Interned<str>, Interned<String>, Interned<str>)>(&bytes, &p) {
            Ok(d) => {
                if *d.0 != text || &*d.1 != text.as_str() || *d.2 != text || &*d.3 != text.as_str() {
                    bad.push(format!("(Interned<String>, Interned<str>, ..) decodes to different values ({which})"));
                }
                if ptr_of(&d.0) != ptr_of(&d.2) || ptr_of(&d.1) != ptr_of(&d.3) {
                    bad.push(format!("equal handles of one type do not share after decode ({which})"));
                }
            }
            Err(e) => bad.push(format!("equal content under String and str in one value fails to decode ({which}): {e}")),
        }
    }
    let bytes_v = vb(r.usize_below(4));
    let t2: (Interned<Vec<u8>>, Interned<[u8]>, Interned<[u8]>) = (b.intern(bytes_v.clone()), b.intern_unsized::<[u8], Vec<u8>>(bytes_v.clone()), b.intern_unsized::<[u8], Vec<u8>>(bytes_v.clone()));
    let bytes = enc(&t2, &pb);
    match dec::<(Interned<Vec<u8>>, Interned<[u8]>, Interned<[u8]>)>(&bytes, &plugin_with(&mk())) {
        Ok(d) => {
            if *d.0 != bytes_v || &*d.1 != bytes_v.as_slice() || ptr_of(&d.1) != ptr_of(&d.2) {
                bad.push("(Interned<Vec<u8>>, Interned<[u8]>, Interned<[u8]>) decodes wrongly (fresh interner)".into());
            }
        }
        Err(e) => bad.push(format!("equal content under Vec<u8> and [u8] fails to decode (fresh interner): {e}")),
    }
    // 3. nested: Interned<Vec<Interned<str>>> twice
    let inner: Vec<Interned<str>> = (0..5).map(|i| b.intern_unsized::<str, String>(vs(i % 2))).collect();
    let outer = b.intern(inner);
    let t3 = (outer.clone(), outer.clone(), Some(outer.clone()));
    let bytes = enc(&t3, &pb);
    match dec::<(Interned<Vec<Interned<str>>>, Interned<Vec<Interned<str>>>, Option<Interned<Vec<Interned<str>>>>)>(&bytes, &plugin_with(&mk())) {
        Ok(d) => {
            if ptr_of(&d.0) != ptr_of(&d.1) || d.2.as_ref().map(ptr_of) != Some(ptr_of(&d.0)) || d.0.len() != 5 || ptr_of(&d.0[0]) != ptr_of(&d.0[2]) {
                bad.push("nested interned structure does not reproduce the sharing (fresh interner)".into());
            }
        }
        Err(e) => bad.push(format!("nested interned structure fails to decode: {e}")),
    }
    // 4. different types never share: u64 value vs a String with related content
    let h1 = b.intern(7u64);
    let h2 = b.intern(7u32);
    if ptr_of(&h1) == ptr_of(&h2) {
        bad.push("handles of different types share an allocation".into());
    }
    bad
}

pub fn worker(ctx: &WorkerCtx) -> Report {
    hooks::install();
    let mut rep = Report::default();
    let base = Rng::new(ctx.seed).derive(1500 + ctx.shard as u64);
    let n: u64 = if ctx.part == "miri" { 2 } else { ctx.pick(400, 6000) };
    let mut seen = std::collections::HashSet::new();
    for i in 0..n {
        let mut r = base.derive(i);
        let c = RoundCfg {
            threads: if ctx.part == "miri" { 3 } else { *r.pick(&[2usize, 3, 4, 8, 16]) },
            domain: *r.pick(&[8usize, 8, 16, 32]),
            shards: *r.pick(&[2usize, 2, 4, 16]),
            vacuum_thread: ctx.part != "miri" && r.chance(1, 2),
            ops: if ctx.part == "miri" { 14 } else { ctx.pick(4_000, 20_000) },
            delay: r.chance(1, 2),
        };
        let case = format!("C15 round {i} threads={} domain={} shards={} vacuum_thread={} ops={} delay={}", c.threads, c.domain, c.shards, c.vacuum_thread, c.ops, c.delay);
        ctx.announce(&case);
        let seed = r.next_u64();
        let (bad, revivals) = round(&c, seed);
        rep.evaluations += 1;
        rep.count("ops", (c.ops * c.threads) as u64);
        rep.count("revivals", revivals);
        if revivals > 0 {
            rep.distinct.insert(h64(&(&case, seed)));
        }
        if i == 0 {
            rep.sample(Json::obj().set("case", case.as_str()).set("revivals", revivals));
        }
        if let Some(first) = bad.first() {
            let sig = "C15/two-live-allocations-or-wrong-content".to_string();
            if seen.insert(sig.clone()) {
                ctx.violation(&Violation { signature: sig, what: first.clone(), witness: Json::obj().set("case", case.as_str()).set("round_seed", seed).set("violations", bad.len()).set("first", first.as_str()) });
            }
        }
        // encoding checks interleaved (cheap)
        for b in encoding_checks(&mut r) {
            let sig = format!("C15/encoding: {}", b.split('(').next().unwrap_or("").trim());
            if seen.insert(sig.clone()) {
                ctx.violation(&Violation { signature: sig, what: b.clone(), witness: Json::obj().set("detail", b) });
            }
        }
        rep.count("encoding_checks", 1);
    }
    rep.count("hook_hits_intern_miss", hooks::hit_count("intern:after_read_miss"));
    rep
}
