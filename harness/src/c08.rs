//! C08 - a crash loses recent work but never yields wrong answers.
//!
//! (A) fault enumeration on RecKv: a history is run live under the finest
//!     grouping (one logical batch per physical commit); then an engine is
//!     opened on the store materialised from every prefix of the commit log.
//! (B) real backends: a child process runs a history on RocksDB / Fjall and is
//!     SIGKILLed at a seeded random instant; the parent reopens the directory.

use std::{
    collections::HashMap,
    io::{BufRead, BufReader},
    process::{Command, Stdio},
    sync::{Arc, atomic::Ordering},
    time::{Duration, Instant},
};

use qbice::engine::YieldFrequency;

use crate::{
    eng::{Backend, RecBackend, closure, open_engine, prerepair_tfc, query_node, shutdown, topo_order},
    model::{Eval, ExecCtx, GenParams, In, Kind, NodeId, Program, gen_family, gen_program, inputs_of, nid},
    reckv::{Grouping, PhysCommit, Shared},
    sup::{self, CheckMeta, PartSpec, Report, Tier, Violation, WorkerCtx},
    util::{Json, Rng, h64},
};

pub fn meta(tier: Tier) -> CheckMeta {
    CheckMeta {
        id: "C08",
        level: "fault_enumeration",
        rule: "crash points = boundaries between physical commits. A generated program + history (every session k \
               writes k into In(0) and other inputs; queries in between, cache capacity 1..2^18, 1-2 serializer \
               workers) runs on DbBacked<RecKv> with grouping Never, which makes every logical batch its own \
               physical commit: the prefixes of that log are a superset of the store states a crash can leave \
               under any coarser grouping. For every prefix p (quick: all p up to 60, else strided + session \
               boundaries +-2; thorough: all) an engine is opened on RecKv::from_prefix(log, p): opening and \
               all queries complete without panic; the inputs read through the engine are exactly those of one \
               earlier session s(p) (identified by In(0)), nothing later leaks; every node equals the reference \
               for session s(p); the engine survives one more session. The live run's commit log must carry \
               strictly increasing batch epochs. (B) kill -9 of a child process running the same kind of history \
               on real RocksDB / Fjall at a seeded instant, same checks after reopening. distinct = hash(program, \
               history, p); non-trivial = prefix strictly inside the log (0 < p < len) whose recovered session \
               is not the last one.",
        assumptions: vec![
            "torn writes inside one backend commit are trusted to the backend".into(),
            "C01-F1 is masked in the recovery queries by a user-level firewall repair (it is C01's finding)".into(),
            "RocksDB runs with the WAL disabled by design: a killed process may recover an empty store (counted)".into(),
        ],
        parts: vec![PartSpec { name: "native", nshards: 16, budget_s: tier.pick(400, 3000), env: vec![], program: None, prepare: None, sanitizer: None }],
        must_be_nonzero: vec![("prefixes_inside_log", "no crash prefix strictly inside a log"), ("recovered_sessions_distinct", "recovered session never varied")],
    }
}

pub struct Hist {
    pub prog: Arc<Program>,
    /// per session k (1-based): full input map after it
    pub sessions: Vec<HashMap<u32, i64>>,
    /// roots queried after session k
    pub queries: Vec<Vec<NodeId>>,
    pub nodes: Vec<NodeId>,
}

pub fn make_hist(seed: u64, idx: u64, sessions: usize) -> Hist {
    let mut r = Rng::new(seed).derive(idx.wrapping_mul(104_729) + 8);
    let prog = if idx % 4 == 3 {
        let which = *r.pick(&[0u64, 1, 2, 5]);
        let sc = 3 + r.below(3) as u32;
        gen_family(&mut r, which, sc)
    } else {
        let nn = 5 + r.below(12) as u32;
        gen_program(&mut r, &GenParams { inputs: 4, xs: 0, nodes: nn, max_ops: 3, p_firewall: 25, p_projection: 20, fancy_ops: true })
    };
    let (mut ins, _) = inputs_of(&prog);
    ins.retain(|i| *i != 0);
    let nodes: Vec<NodeId> = prog.nodes.keys().copied().collect();
    let mut cur: HashMap<u32, i64> = HashMap::new();
    let mut sess = Vec::new();
    let mut queries = Vec::new();
    for k in 1..=sessions {
        cur.insert(0, k as i64);
        if k == 1 {
            for i in &ins {
                cur.insert(*i, r.range(1, 4));
            }
        } else {
            for i in &ins {
                if r.chance(1, 3) {
                    cur.insert(*i, r.range(-2, 5));
                }
            }
        }
        sess.push(cur.clone());
        let q: Vec<NodeId> = nodes.iter().copied().filter(|_| r.chance(1, 3)).collect();
        queries.push(q);
    }
    Hist { prog: Arc::new(prog), sessions: sess, queries, nodes }
}

fn reference(prog: &Program, inputs: &HashMap<u32, i64>, nodes: &[NodeId]) -> HashMap<NodeId, i64> {
    let mut xcap = HashMap::new();
    let cells = HashMap::new();
    let mut ev = Eval::new(prog, inputs, &mut xcap, &cells, false);
    for n in nodes {
        ev.eval(*n);
    }
    ev.memo
}

/// run the history live; returns false if something went wrong (C01's business)
async fn live<B: Backend>(b: &B, h: &Hist, announce: Option<&dyn Fn(usize)>) -> bool {
    let ctx = ExecCtx::new(h.prog.clone());
    let engine = open_engine(b, &ctx, YieldFrequency::Never).await.expect("open");
    for (k, inputs) in h.sessions.iter().enumerate() {
        let mut s = engine.input_session().await;
        let mut keys: Vec<&u32> = inputs.keys().collect();
        keys.sort();
        for i in keys {
            s.set_input(In(*i), inputs[i]).await;
        }
        s.commit().await;
        if let Some(a) = announce {
            a(k + 1);
        }
        let t = engine.clone().tracked().await;
        prerepair_tfc(&t, &topo_order(&h.prog, &h.nodes)).await;
        for n in &h.queries[k] {
            let _ = query_node(&t, *n).await;
        }
    }
    shutdown(engine).await
}

struct Recovered {
    session: Option<usize>,
    violations: Vec<(String, Json)>,
}

/// open an engine on `b` (a crashed store) and check it
async fn recover<B: Backend>(b: &B, h: &Hist, what: &str) -> Recovered {
    let mut viol = Vec::new();
    let mark = sup::panic_mark();
    let ctx = ExecCtx::new(h.prog.clone());
    let opened = tokio::time::timeout(Duration::from_secs(20), open_engine(b, &ctx, YieldFrequency::Never)).await;
    let engine = match opened {
        Ok(Ok(e)) => e,
        Ok(Err(e)) => {
            viol.push(("engine-does-not-open".into(), Json::obj().set("what", what).set("error", e)));
            return Recovered { session: None, violations: viol };
        }
        Err(_) => {
            viol.push(("engine-open-hangs".into(), Json::obj().set("what", what)));
            return Recovered { session: None, violations: viol };
        }
    };
    let mut session = None;
    let res = tokio::time::timeout(Duration::from_secs(30), async {
        // which session does the store show? In(0) is written by every session.
        // An input that was never stored cannot be queried (no executor): probe
        // by opening a session and using `update`, which reports the current value.
        let mut cur: HashMap<u32, Option<i64>> = HashMap::new();
        {
            let mut s = engine.input_session().await;
            let all_inputs: Vec<u32> = h.sessions.last().map(|m| m.keys().copied().collect()).unwrap_or_default();
            for i in all_inputs {
                let seen = Arc::new(parking_lot::Mutex::new(None));
                let s2 = seen.clone();
                // write back the same value (or a dummy that we overwrite below)
                let _ = s
                    .update(In(i), move |c| {
                        *s2.lock() = Some(c);
                        c.unwrap_or(-777)
                    })
                    .await;
                cur.insert(i, seen.lock().take().flatten());
            }
            s.commit().await;
        }
        let k = cur.get(&0).copied().flatten();
        let sidx = match k {
            None => 0usize,
            Some(k) => k as usize,
        };
        if sidx > h.sessions.len() {
            viol.push(("recovered-session-counter-out-of-range".into(), Json::obj().set("in0", k)));
            return;
        }
        session = Some(sidx);
        // all-or-nothing: every input equals session sidx's value (or is absent if sidx == 0)
        let expect: HashMap<u32, i64> = if sidx == 0 { HashMap::new() } else { h.sessions[sidx - 1].clone() };
        for (i, v) in &cur {
            let e = expect.get(i).copied();
            if *v != e {
                viol.push((
                    "recovered-inputs-mix-sessions".into(),
                    Json::obj().set("what", what).set("input", *i).set("store_shows", format!("{v:?}")).set("session_by_In0", sidx).set("that_session_wrote", format!("{e:?}")),
                ));
            }
        }
        if sidx == 0 || !viol.is_empty() {
            return;
        }
        // the probe wrote -777 into nothing (all inputs exist when sidx > 0); values equal the reference
        let exp = reference(&h.prog, &expect, &h.nodes);
        let t = engine.clone().tracked().await;
        prerepair_tfc(&t, &topo_order(&h.prog, &h.nodes)).await;
        for n in &h.nodes {
            if !closure(&h.prog, &[*n]).iter().all(|d| d.kind != Kind::In || expect.contains_key(&d.idx)) {
                continue;
            }
            let v = query_node(&t, *n).await;
            if v != exp[n] {
                viol.push(("wrong-answer-after-crash".into(), Json::obj().set("what", what).set("node", format!("{n:?}")).set("got", v).set("expected", exp[n]).set("recovered_session", sidx)));
            }
        }
        drop(t);
        // survives one further session
        let mut next = expect.clone();
        {
            let mut s = engine.input_session().await;
            for (i, v) in next.iter_mut() {
                *v += 3;
                s.set_input(In(*i), *v).await;
            }
            s.commit().await;
        }
        let exp = reference(&h.prog, &next, &h.nodes);
        let t = engine.clone().tracked().await;
        prerepair_tfc(&t, &topo_order(&h.prog, &h.nodes)).await;
        for n in &h.nodes {
            let v = query_node(&t, *n).await;
            if v != exp[n] {
                viol.push(("wrong-answer-after-crash-and-edit".into(), Json::obj().set("what", what).set("node", format!("{n:?}")).set("got", v).set("expected", exp[n]).set("recovered_session", sidx)));
            }
        }
    })
    .await;
    if res.is_err() {
        viol.push(("recovered-engine-hangs".into(), Json::obj().set("what", what)));
        std::mem::forget(engine);
    } else {
        let _ = tokio::time::timeout(Duration::from_secs(20), shutdown(engine)).await;
    }
    let ps = sup::panics_since(mark);
    if !ps.is_empty() {
        viol.push(("panic-after-crash".into(), Json::obj().set("what", what).set("panics", Json::Arr(ps.iter().take(3).map(|s| Json::Str(s.clone())).collect()))));
    }
    Recovered { session, violations: viol }
}

fn prefixes_to_try(log: &[PhysCommit], tier: Tier, r: &mut Rng) -> Vec<usize> {
    let n = log.len();
    if tier == Tier::Thorough || n <= 60 {
        return (0..=n).collect();
    }
    let mut v: Vec<usize> = vec![0, 1, n - 1, n];
    for _ in 0..40 {
        v.push(r.usize_below(n + 1));
    }
    v.sort_unstable();
    v.dedup();
    v
}

// ---------------------------------------------------------------------------
// (B) real backends

#[cfg(any(feature = "rocksdb", feature = "fjall"))]
fn real_backend_run(which: &str, dir: &std::path::Path, h: &Hist, cap: u64, rt: &tokio::runtime::Runtime, child_mode: bool) -> Option<Recovered> {
    macro_rules! go {
        ($b:expr) => {{
            let b = $b;
            if child_mode {
                let announce = |k: usize| {
                    println!("ACK {k}");
                };
                rt.block_on(live(&b, h, Some(&announce)));
                None
            } else {
                Some(rt.block_on(recover(&b, h, which)))
            }
        }};
    }
    match which {
        #[cfg(feature = "rocksdb")]
        "rocksdb" => go!(crate::eng::RocksBackend { dir: dir.to_path_buf(), cap }),
        #[cfg(feature = "fjall")]
        "fjall" => go!(crate::eng::FjallBackend { dir: dir.to_path_buf(), cap }),
        _ => None,
    }
}

/// `qv kill-child <backend> <dir> <seed> <idx> <sessions> <cap>`
pub fn kill_child(args: &[String]) {
    #[cfg(any(feature = "rocksdb", feature = "fjall"))]
    {
        let (which, dir) = (args[0].as_str(), std::path::PathBuf::from(&args[1]));
        let (seed, idx, sessions, cap): (u64, u64, usize, u64) = (args[2].parse().unwrap(), args[3].parse().unwrap(), args[4].parse().unwrap(), args[5].parse().unwrap());
        let h = make_hist(seed, idx, sessions);
        let rt = tokio::runtime::Builder::new_multi_thread().worker_threads(2).enable_all().build().unwrap();
        real_backend_run(which, &dir, &h, cap, &rt, true);
        println!("DONE");
    }
    let _ = args;
}

pub fn worker(ctx: &WorkerCtx) -> Report {
    let mut rep = Report::default();
    let base = Rng::new(ctx.seed).derive(800 + ctx.shard as u64);
    let n: u64 = if ctx.part == "miri" { 1 } else { ctx.pick(40, 600) };
    let mut seen = std::collections::HashSet::new();
    let mut recovered_kinds = std::collections::BTreeSet::new();
    let rt = tokio::runtime::Builder::new_current_thread().enable_all().build().unwrap();
    for k in 0..n {
        let idx = k * ctx.nshards as u64 + ctx.shard as u64;
        let mut r = base.derive(k);
        let sessions = 3 + r.usize_below(if ctx.part == "miri" { 1 } else { 6 });
        let h = make_hist(ctx.seed, idx, sessions);
        let cap = *r.pick(&[1u64, 2, 8, 1 << 18]);
        let workers = *r.pick(&[1usize, 2]);
        let case = format!("C08 history {idx} nodes={} sessions={sessions} cap={cap} workers={workers}", h.nodes.len());
        ctx.announce(&case);
        let live_b = RecBackend::new(cap, workers, Grouping::Never, r.next_u64());
        let ok = rt.block_on(live(&live_b, &h, None));
        if !ok {
            rep.inconclusive.push(format!("{case}: engine still referenced at shutdown of the live run"));
            continue;
        }
        let log: Vec<PhysCommit> = live_b.shared.log.lock().clone();
        // order monitor on the live run
        let epochs: Vec<u64> = log.iter().flat_map(|c| c.epochs.iter().copied()).collect();
        if !epochs.windows(2).all(|w| w[0] < w[1]) || log.iter().any(|c| c.logical_batches != 1) {
            let sig = "C08/live-commit-log-out-of-order-or-regrouped".to_string();
            if seen.insert(sig.clone()) {
                ctx.violation(&Violation { signature: sig, what: format!("epochs {:?}", &epochs[..epochs.len().min(40)]), witness: Json::obj().set("case", case.as_str()) });
            }
        }
        rep.count("physical_commits", log.len() as u64);
        for p in prefixes_to_try(&log, ctx.tier, &mut r) {
            let shared = Shared::from_prefix(&log, p, Grouping::Never);
            let b = RecBackend { shared, cap: *r.pick(&[1u64, 8, 1 << 18]), workers: 1 };
            let what = format!("crash after physical commit {p} of {}", log.len());
            ctx.announce(&format!("{case}: {what}"));
            let rec = rt.block_on(recover(&b, &h, &what));
            rep.evaluations += 1;
            rep.count("prefixes", 1);
            if let Some(s) = rec.session {
                recovered_kinds.insert(s);
                if p > 0 && p < log.len() {
                    rep.count("prefixes_inside_log", 1);
                    if s < sessions {
                        rep.distinct.insert(h64(&(h.prog.shape_hash(), idx, p)));
                    }
                }
            }
            for (kind, d) in rec.violations {
                let sig = format!("C08/{kind}");
                if seen.insert(sig.clone()) {
                    ctx.violation(&Violation {
                        signature: sig,
                        what: format!("{kind}: {}", d.render()),
                        witness: Json::obj().set("case", case.as_str()).set("seed", ctx.seed).set("history_index", idx).set("prefix", p).set("log_len", log.len()).set("detail", d).set("program", h.prog.to_json()).set("sessions", format!("{:?}", h.sessions)),
                    });
                } else {
                    rep.count("repeat_violations_same_signature", 1);
                }
            }
        }
        if k == 0 {
            rep.sample(Json::obj().set("case", case.as_str()).set("physical_commits", log.len()).set("sessions", format!("{:?}", h.sessions)));
        }
    }
    rep.count("recovered_sessions_distinct", recovered_kinds.len() as u64);

    // ---- (B) kill -9 on real backends
    #[cfg(any(feature = "rocksdb", feature = "fjall"))]
    if ctx.part != "miri" {
        let kills: u64 = ctx.pick(2, 20);
        let exe = std::env::current_exe().unwrap();
        let rt2 = tokio::runtime::Builder::new_multi_thread().worker_threads(2).enable_all().build().unwrap();
        for which in ["fjall", "rocksdb"] {
            #[cfg(not(feature = "rocksdb"))]
            if which == "rocksdb" {
                continue;
            }
            #[cfg(not(feature = "fjall"))]
            if which == "fjall" {
                continue;
            }
            for kk in 0..kills {
                let mut r = base.derive(9000 + kk + h64(which) % 1000);
                let idx = 50_000 + kk * ctx.nshards as u64 + ctx.shard as u64;
                let sessions = 6 + r.usize_below(10);
                let cap = *r.pick(&[8u64, 1 << 18]);
                let dir = std::path::PathBuf::from(format!("/var/tmp/qv-c08-{}-{which}-{kk}", std::process::id()));
                let _ = std::fs::remove_dir_all(&dir);
                std::fs::create_dir_all(&dir).unwrap();
                let case = format!("C08 kill -9 {which} history {idx} sessions={sessions} cap={cap}");
                ctx.announce(&case);
                let mut child = match Command::new(&exe)
                    .args(["kill-child", which, dir.to_str().unwrap(), &ctx.seed.to_string(), &idx.to_string(), &sessions.to_string(), &cap.to_string()])
                    .stdout(Stdio::piped())
                    .stderr(Stdio::null())
                    .spawn()
                {
                    Ok(c) => c,
                    Err(e) => {
                        rep.inconclusive.push(format!("kill-child spawn failed: {e}"));
                        continue;
                    }
                };
                let out = child.stdout.take().unwrap();
                let acked = Arc::new(std::sync::atomic::AtomicU64::new(0));
                let acked2 = acked.clone();
                let reader = std::thread::spawn(move || {
                    for l in BufReader::new(out).lines().map_while(Result::ok) {
                        if let Some(k) = l.strip_prefix("ACK ") {
                            acked2.store(k.parse().unwrap_or(0), Ordering::SeqCst);
                        }
                    }
                });
                // kill after a seeded number of ACKs (+ a seeded delay), or during shutdown
                let target = 1 + r.below(sessions as u64 + 1);
                let t0 = Instant::now();
                loop {
                    if acked.load(Ordering::SeqCst) >= target || t0.elapsed() > Duration::from_secs(30) {
                        break;
                    }
                    if let Ok(Some(_)) = child.try_wait() {
                        break;
                    }
                    std::thread::sleep(Duration::from_micros(200));
                }
                std::thread::sleep(Duration::from_micros(r.below(3000)));
                let _ = child.kill();
                let _ = child.wait();
                let _ = reader.join();
                let last_ack = acked.load(Ordering::SeqCst);
                let h = make_hist(ctx.seed, idx, sessions);
                let rec = real_backend_run(which, &dir, &h, cap, &rt2, false);
                let _ = std::fs::remove_dir_all(&dir);
                rep.evaluations += 1;
                rep.count(&format!("kills_{which}"), 1);
                if let Some(rec) = rec {
                    if let Some(s) = rec.session {
                        if s > 0 {
                            rep.count(&format!("kills_{which}_recovered_nonempty"), 1);
                        }
                        if s as u64 > last_ack + 1 {
                            // a session that was not even started when we killed
                        }
                    }
                    for (kind, d) in rec.violations {
                        let sig = format!("C08/{kind} backend={which}");
                        if seen.insert(sig.clone()) {
                            ctx.violation(&Violation { signature: sig, what: format!("{kind}: {}", d.render()), witness: Json::obj().set("case", case.as_str()).set("killed_after_ack", last_ack).set("detail", d) });
                        }
                    }
                }
            }
        }
        rt2.shutdown_timeout(Duration::from_secs(2));
    }
    let _ = nid(Kind::In, 0);
    rep
}
