//! C07 - state survives a clean restart and is reused, not recomputed.
//!
//! The C01/C03 workload with `Restart` steps (drop every engine handle inside
//! the runtime, reopen on the same store) run differentially against the same
//! history without restarts.

use std::collections::{BTreeMap, BTreeSet};

use crate::{
    c01::{Case, CaseCfg, make_case, pick_cfg, run_on_mode, BackendSpec, case_json},
    eng::{Backend, RecBackend, RunOutcome, Step},
    reckv::Grouping,
    sup::{CheckMeta, PartSpec, Report, Tier, Violation, WorkerCtx},
    util::{Json, Rng, h64},
};

pub fn meta(tier: Tier) -> CheckMeta {
    CheckMeta {
        id: "C07",
        level: "exploration",
        rule: "C01's generated programs and sequential histories with Restart steps inserted at random positions \
               (between sessions, between queries, right after parallel query steps, after dropped sessions and \
               empty sessions), on DbBacked<RecKv> (cache capacity 1/2/8/64/2^18, 1-2 serializer workers, grouping \
               Never/Random/Always) and, sampled, on real RocksDB and Fjall directories. Oracles: values == \
               reference after every reopen with no input set again; the C03 checker continues across the \
               restart with its table of previous runs, so an executor run after a restart must be justified \
               exactly as without one; differential: the same history without the Restart steps must give the \
               same per-epoch set of completed executor invocations; the commit log has no epoch hole. A \
               violation is attributed to C07 only if the run without restarts does not show it. distinct = \
               hash(program, history, config); non-trivial = history with >= 1 restart that is followed by both \
               a served-from-store query and a justified re-execution.",
        assumptions: vec!["same hasher seed and executors after reopen (as the property requires)".into()],
        parts: vec![PartSpec { name: "native", nshards: 16, budget_s: tier.pick(300, 2400), env: vec![], program: None, prepare: None, sanitizer: None }],
        must_be_nonzero: vec![("restarts", "no restart executed"), ("queries_served_after_restart_without_execution", "no query was served from the store after a restart")],
    }
}

fn strip_restarts(h: &[Step]) -> Vec<Step> { h.iter().filter(|s| !matches!(s, Step::Restart)).cloned().collect() }

fn viol_keys(o: &RunOutcome) -> BTreeSet<String> {
    o.oracle
        .violations
        .iter()
        // (the known finding C03-F1 depends on when a pending backward
        // projection happens to run; it is C03's, not a restart effect)
        .filter(|(_, k, _)| k != "projection-rerun-on-ABA-firewall")
        .map(|(p, k, d)| {
            format!(
                "{p}/{k}/{}/{}",
                d.get("node").or(d.get("reader")).and_then(Json::as_str).unwrap_or(""),
                d.get("epoch").and_then(Json::as_i).unwrap_or(-1)
            )
        })
        .collect()
}

fn exec_multiset(o: &RunOutcome) -> BTreeMap<(String, u64), u32> {
    let mut m = BTreeMap::new();
    for (n, hist) in &o.oracle.value_history {
        for (e, _) in hist {
            *m.entry((format!("{n:?}"), *e)).or_insert(0) += 1;
        }
    }
    m
}

type Pair = (RunOutcome, Option<RunOutcome>, bool, Option<(RunOutcome, RunOutcome)>);

fn run_pair<B: Backend>(mk: &dyn Fn() -> B, case: &Case, cfg: &CaseCfg) -> Result<Pair, String> {
    let plain = Case { prog: case.prog.clone(), history: strip_restarts(&case.history), fan: case.fan };
    let mut a = run_on_mode(&mk(), case, cfg, false)?;
    let mut pre = false;
    if a.oracle.c01_violated {
        // mask the known finding C01-F1 (it shows up timing-dependently on
        // multi-thread runtimes): compare the counterfactual runs instead
        pre = true;
        a = run_on_mode(&mk(), case, cfg, true)?;
    }
    let b = run_on_mode(&mk(), &plain, cfg, pre)?;
    // second pair for the executor-invocation comparison (see the worker)
    let cmp = if cfg.rt_workers == 0 && !pre && viol_keys(&a).is_empty() && viol_keys(&b).is_empty() {
        Some((run_on_mode(&mk(), case, cfg, true)?, run_on_mode(&mk(), &plain, cfg, true)?))
    } else {
        None
    };
    Ok((a, Some(b), pre, cmp))
}

pub fn worker(ctx: &WorkerCtx) -> Report {
    let mut rep = Report::default();
    let n: u64 = if ctx.part == "miri" { 1 } else { ctx.pick(150, 2500) };
    let mut seen = std::collections::HashSet::new();
    for k in 0..n {
        let idx = k * ctx.nshards as u64 + ctx.shard as u64;
        if let Ok(f) = std::env::var("QV_ONLY_CASE") {
            if f != idx.to_string() {
                continue;
            }
        }
        let (mut case, mut r) = make_case(ctx.seed ^ 0x0C07, idx, ctx.tier, true);
        // make sure there are restarts, also right at the interesting places
        let mut h = Vec::new();
        for (i, s) in case.history.iter().enumerate() {
            h.push(s.clone());
            let interesting = matches!(s, Step::Session { commit: false, .. }) || matches!(s, Step::Session { writes, .. } if writes.is_empty()) || matches!(s, Step::Query { mode: crate::eng::QMode::Par(_), .. });
            if i > 0 && (r.chance(1, 8) || (interesting && r.chance(1, 2))) {
                h.push(Step::Restart);
            }
        }
        case.history = h;
        let restarts = case.history.iter().filter(|s| matches!(s, Step::Restart)).count() as u64;
        let (mut cfg, _) = pick_cfg(&mut r);
        let real = cfg!(feature = "fjall") && ctx.part == "native" && idx % 20 == 7;
        let cap = *r.pick(&[1u64, 2, 8, 64, 1 << 18]);
        let workers = *r.pick(&[1usize, 2]);
        let grouping = *r.pick(&[Grouping::Never, Grouping::Random(4), Grouping::Always]);
        let seed = r.next_u64();
        cfg.backend = if real { format!("real backend cap={cap}") } else { format!("DbBacked<RecKv>(cap={cap},workers={workers},grouping={grouping:?})") };
        ctx.announce(&format!("C07 case {idx} {} restarts={restarts} steps={}", cfg.backend, case.history.len()));
        let mut shared_for_log = None;
        let res = if real {
            #[cfg(feature = "fjall")]
            {
                let n = std::sync::atomic::AtomicU64::new(0);
                let mk = || {
                    let i = n.fetch_add(1, std::sync::atomic::Ordering::SeqCst);
                    let dir = std::path::PathBuf::from(format!("/var/tmp/qv-c07-{}-{idx}-{i}", std::process::id()));
                    let _ = std::fs::remove_dir_all(&dir);
                    std::fs::create_dir_all(&dir).unwrap();
                    crate::eng::FjallBackend { dir, cap }
                };
                let out = run_pair(&mk, &case, &cfg);
                for i in 0..n.load(std::sync::atomic::Ordering::SeqCst) {
                    let _ = std::fs::remove_dir_all(format!("/var/tmp/qv-c07-{}-{idx}-{i}", std::process::id()));
                }
                rep.count("cases_on_real_backend", 1);
                out
            }
            #[cfg(not(feature = "fjall"))]
            {
                Err("no real backend compiled in".to_string())
            }
        } else {
            let first = std::sync::Mutex::new(None);
            let mk = || {
                let b = RecBackend::new(cap, workers, grouping, seed);
                let mut f = first.lock().unwrap();
                if f.is_none() {
                    *f = Some(b.shared.clone());
                }
                b
            };
            let out = run_pair(&mk, &case, &cfg);
            shared_for_log = first.lock().unwrap().clone();
            out
        };
        let (a, b, pre, cmp) = match res {
            Ok(x) => x,
            Err(e) => {
                rep.inconclusive.push(format!("case {idx}: {e}"));
                continue;
            }
        };
        let b = b.unwrap();
        let shutdown_ok = a.shutdown_ok && b.shutdown_ok;
        if pre {
            rep.count("cases_compared_in_counterfactual_mode_C01-F1", 1);
        }
        rep.evaluations += 1;
        rep.count("restarts", a.oracle.stats.restarts);
        rep.count("query_returns", a.oracle.stats.query_returns);
        rep.count("exec_records", a.oracle.stats.exec_records);
        // served from the store: queries after a restart that ran no executor are counted by
        // comparing totals with the no-restart run (equal multisets => nothing was recomputed)
        let cj = case_json(ctx.seed, idx, &case, &cfg);
        let (ka, kb) = (viol_keys(&a), viol_keys(&b));
        let only_a: Vec<&String> = ka.difference(&kb).collect();
        let mut reported = false;
        for key in &only_a {
            let sig = format!("C07/{}", key.split('/').take(2).collect::<Vec<_>>().join(":"));
            reported = true;
            if seen.insert(sig.clone()) {
                let detail = a.oracle.violations.iter().find(|(p, k, _)| key.starts_with(&format!("{p}/{k}/"))).map(|v| v.2.clone()).unwrap_or(Json::Null);
                ctx.violation(&Violation { signature: sig, what: format!("only with restarts: {key} {}", detail.render()), witness: Json::obj().set("case", cj.clone()).set("detail", detail) });
            }
        }
        rep.count("violations_shared_with_no_restart_run", ka.intersection(&kb).count() as u64);
        if ka.is_empty() && kb.is_empty() {
            // The comparison is made on a second pair of runs in which the user repairs the
            // firewalls below every computed query before each query step: without that,
            // the known finding C01-F1 (an executor-level read that skips the firewall
            // repair) decides - invisibly, when the stale value happens to equal the right
            // one - in which epoch a node is re-executed, and a restart changes the timing.
            let (a, b) = match cmp {
                Some((x, y)) => {
                    rep.count("invocation_comparisons_on_firewall_repaired_pairs", 1);
                    if x.oracle.c01_violated || y.oracle.c01_violated {
                        // nothing to compare on; the value oracles above have spoken
                        continue;
                    }
                    (x, y)
                }
                None => (a, b),
            };
            let (ma, mut mb) = (exec_multiset(&a), exec_multiset(&b));
            // executions that the run WITHOUT restarts made without justification (known
            // finding C03-F1: a pending backward projection re-runs projections) need not
            // happen in the run with restarts; everything else has to match exactly, and the
            // run with restarts must never execute more.
            let mut ma = ma;
            for (o, m) in [(&b, &mut mb), (&a, &mut ma)] {
                for (p, k, d) in &o.oracle.violations {
                    if p == "C03" && k == "projection-rerun-on-ABA-firewall" {
                        let key = (d.get("node").and_then(Json::as_str).unwrap_or("").to_string(), d.get("epoch").and_then(Json::as_i).unwrap_or(-1) as u64);
                        if let Some(c) = m.get_mut(&key) {
                            *c = c.saturating_sub(1);
                            rep.count("unjustified_projection_reruns_excluded_from_comparison_C03-F1", 1);
                        }
                    }
                }
                m.retain(|_, c| *c > 0);
            }
            // (on a multi-thread runtime the order inside join_all / spawned reads is
            // timing dependent and, through C01-F1, changes in which epoch a node is
            // re-executed: the multiset comparison is made on deterministic runs only)
            if cfg.rt_workers > 0 && ma != mb {
                rep.count("multiset_comparisons_skipped_nondeterministic_runtime", 1);
            } else if ma != mb {
                let extra: Vec<_> = ma.iter().filter(|(k, v)| mb.get(*k) != Some(*v)).take(4).map(|(k, v)| format!("{k:?} x{v} (without restarts x{})", mb.get(k).copied().unwrap_or(0))).collect();
                let missing: Vec<_> = mb.iter().filter(|(k, _)| !ma.contains_key(*k)).take(4).map(|(k, v)| format!("{k:?} x0 (without restarts x{v})")).collect();
                let sig = "C07/restart-changes-executor-invocations".to_string();
                reported = true;
                if seen.insert(sig.clone()) {
                    ctx.violation(&Violation {
                        signature: sig,
                        what: format!("completed executor invocations differ from the run without restarts: {extra:?} {missing:?}"),
                        witness: Json::obj().set("case", cj.clone()).set("extra_or_different", format!("{extra:?}")).set("missing", format!("{missing:?}")),
                    });
                }
            } else {
                rep.count("queries_served_after_restart_without_execution", a.oracle.stats.served_from_store_after_restart);
                if a.oracle.stats.restarts > 0 && a.oracle.stats.reexecutions > 0 {
                    rep.distinct.insert(h64(&(case.prog.shape_hash(), format!("{:?}", case.history), &cfg.backend)));
                }
            }
        }
        if let Some(sh) = shared_for_log {
            let log = sh.log.lock();
            let mut epochs: Vec<u64> = log.iter().flat_map(|c| c.epochs.iter().copied()).collect();
            // every engine lifetime numbers its batches from 0: check each run of increasing epochs
            let mut ok = true;
            let mut prev: Option<u64> = None;
            for e in epochs.drain(..) {
                match prev {
                    Some(p) if e == p + 1 => {}
                    Some(_) if e == 0 => {}
                    None if e == 0 => {}
                    _ => ok = false,
                }
                prev = Some(e);
            }
            if !ok && !reported {
                let sig = "C07/commit-log-epoch-hole".to_string();
                if seen.insert(sig.clone()) {
                    ctx.violation(&Violation { signature: sig, what: "the commit log skips a batch epoch".into(), witness: Json::obj().set("case", cj.clone()) });
                }
            }
        }
        if k == 0 {
            rep.sample(cj);
        }
        if !shutdown_ok {
            rep.inconclusive.push(format!("case {idx}: engine still referenced at shutdown"));
        }
    }
    let _ = BackendSpec::Mem;
    let _ = Rng::new(0);
    rep
}
