//! Hand-written part of the type universes: derived structs / enums, the two
//! same-named-type modules for C14, visitor traits.

pub mod prelude {
    pub use std::{
        borrow::Cow,
        cell::{Cell, RefCell},
        cmp::Reverse,
        collections::{
            BTreeMap, BTreeSet, BinaryHeap, HashMap, HashSet, LinkedList, VecDeque,
            hash_map::RandomState,
        },
        marker::PhantomData,
        num::{
            NonZeroI8, NonZeroI16, NonZeroI32, NonZeroI64, NonZeroI128, NonZeroIsize, NonZeroU8,
            NonZeroU16, NonZeroU32, NonZeroU64, NonZeroU128, NonZeroUsize, Wrapping,
        },
        ops::{Bound, Range, RangeFrom, RangeFull, RangeInclusive, RangeTo, RangeToInclusive},
        path::{Path, PathBuf},
        rc::Rc,
        sync::{
            Arc,
            atomic::{
                AtomicBool, AtomicI8, AtomicI16, AtomicI32, AtomicI64, AtomicIsize, AtomicU8,
                AtomicU16, AtomicU32, AtomicU64, AtomicUsize,
            },
        },
        time::Duration,
    };

    pub use dashmap::{DashMap, DashSet};
    pub use qbice_serialize::{Decode, Encode};
    pub use qbice_stable_hash::StableHash;
    pub use qbice_stable_type_id::Identifiable;
    pub use qbice_storage::intern::Interned;

    pub use super::{
        BothVisitor, CodecVisitor, EnumA, GenE, GenS, HashVisitor, IdVisitor, Named, SkipEnum, SkipGenTup, SkipNamedEnds, SkipS, SkipTupFirst, SkipTupMid, SkipTupTwo, TupleS, UnitS, ma,
        mb,
    };
    pub use crate::{gen_types::Big, util::Rng, values::Gen};
}

use prelude::*;

pub trait CodecVisitor {
    fn visit<T: Gen + Encode + Decode>(&mut self, name: &'static str);
}
pub trait HashVisitor {
    fn visit<T: Gen + StableHash>(&mut self, name: &'static str);
}
pub trait BothVisitor {
    fn visit<T: Gen + StableHash + Encode + Decode>(&mut self, name: &'static str);
}
pub trait IdVisitor {
    fn visit<T: Identifiable + ?Sized>(&mut self, name: &'static str);
}

#[derive(Debug, Clone, PartialEq, Encode, Decode, StableHash, Identifiable)]
pub struct Named {
    pub a: u32,
    pub b: String,
    pub c: Option<i64>,
    pub d: Vec<u16>,
}
impl Gen for Named {
    fn generate(r: &mut Rng, d: u32) -> Self {
        Self {
            a: Gen::generate(r, d),
            b: Gen::generate(r, d.min(1)),
            c: Gen::generate(r, d),
            d: Gen::generate(r, d.min(1)),
        }
    }
    fn same(&self, o: &Self) -> bool { self == o }
    fn rebuild(&self, r: &mut Rng) -> Self {
        Self { a: self.a, b: self.b.rebuild(r), c: self.c, d: self.d.rebuild(r) }
    }
}

#[derive(Debug, Clone, PartialEq, Encode, Decode, StableHash, Identifiable)]
pub struct TupleS(pub i8, pub String, pub (u8, u8));
impl Gen for TupleS {
    fn generate(r: &mut Rng, d: u32) -> Self {
        Self(Gen::generate(r, d), Gen::generate(r, d.min(1)), Gen::generate(r, d))
    }
    fn same(&self, o: &Self) -> bool { self == o }
    fn rebuild(&self, r: &mut Rng) -> Self { Self(self.0, self.1.rebuild(r), self.2) }
}

#[derive(Debug, Clone, PartialEq, Eq, Encode, Decode, StableHash, Identifiable)]
pub struct UnitS;
impl Gen for UnitS {
    fn generate(_r: &mut Rng, _d: u32) -> Self { Self }
    fn same(&self, _o: &Self) -> bool { true }
    fn rebuild(&self, _r: &mut Rng) -> Self { Self }
}

#[derive(Debug, Clone, PartialEq, Encode, Decode, StableHash, Identifiable)]
pub struct GenS<T> {
    pub inner: T,
    pub tag: u8,
}
impl<T: Gen> Gen for GenS<T> {
    fn generate(r: &mut Rng, d: u32) -> Self {
        Self { inner: T::generate(r, d.min(2)), tag: Gen::generate(r, d) }
    }
    fn same(&self, o: &Self) -> bool { self.inner.same(&o.inner) && self.tag == o.tag }
    fn rebuild(&self, r: &mut Rng) -> Self { Self { inner: self.inner.rebuild(r), tag: self.tag } }
}

/// `skipped` is not encoded and decodes to its `Default`; the generator
/// therefore always produces the default there so "decode(encode(v)) == v" is
/// the honest statement for this type.
#[derive(Debug, Clone, PartialEq, Encode, Decode, Identifiable)]
pub struct SkipS {
    pub before: u16,
    #[serialize(skip)]
    pub skipped: Vec<u8>,
    pub after: String,
}
impl StableHash for SkipS {
    fn stable_hash<H: qbice_stable_hash::StableHasher + ?Sized>(&self, state: &mut H) {
        self.before.stable_hash(state);
        self.after.stable_hash(state);
    }
}
impl Gen for SkipS {
    fn generate(r: &mut Rng, d: u32) -> Self {
        Self { before: Gen::generate(r, d), skipped: Vec::new(), after: Gen::generate(r, d.min(1)) }
    }
    fn same(&self, o: &Self) -> bool { self == o }
    fn rebuild(&self, r: &mut Rng) -> Self {
        Self { before: self.before, skipped: Vec::new(), after: self.after.rebuild(r) }
    }
}


// ---- #[serialize(skip)] in every position of every derive shape ---------------
// (skipped fields are generated at Default and excluded from hashing, like SkipS)
macro_rules! skip_hash {
    ($t:ty, |$s:ident, $st:ident| $body:block) => {
        impl StableHash for $t {
            fn stable_hash<H: qbice_stable_hash::StableHasher + ?Sized>(&self, $st: &mut H) {
                let $s = self;
                $body
            }
        }
    };
}

#[derive(Debug, Clone, PartialEq, Encode, Decode, Identifiable)]
pub struct SkipTupFirst(#[serialize(skip)] pub u32, pub String, pub u16);
skip_hash!(SkipTupFirst, |s, st| { s.1.stable_hash(st); s.2.stable_hash(st); });
impl Gen for SkipTupFirst {
    fn generate(r: &mut Rng, d: u32) -> Self { Self(0, Gen::generate(r, d.min(1)), Gen::generate(r, d)) }
    fn same(&self, o: &Self) -> bool { self == o }
    fn rebuild(&self, r: &mut Rng) -> Self { Self(0, self.1.rebuild(r), self.2) }
}

#[derive(Debug, Clone, PartialEq, Encode, Decode, Identifiable)]
pub struct SkipTupMid(pub u64, #[serialize(skip)] pub u64, pub u64);
skip_hash!(SkipTupMid, |s, st| { s.0.stable_hash(st); s.2.stable_hash(st); });
impl Gen for SkipTupMid {
    fn generate(r: &mut Rng, d: u32) -> Self { Self(Gen::generate(r, d), 0, Gen::generate(r, d)) }
    fn same(&self, o: &Self) -> bool { self == o }
    fn rebuild(&self, _r: &mut Rng) -> Self { self.clone() }
}

#[derive(Debug, Clone, PartialEq, Encode, Decode, Identifiable)]
pub struct SkipTupTwo(pub i16, #[serialize(skip)] pub String, pub Vec<u8>, #[serialize(skip)] pub u8, pub bool);
skip_hash!(SkipTupTwo, |s, st| { s.0.stable_hash(st); s.2.stable_hash(st); s.4.stable_hash(st); });
impl Gen for SkipTupTwo {
    fn generate(r: &mut Rng, d: u32) -> Self { Self(Gen::generate(r, d), String::new(), Gen::generate(r, d.min(1)), 0, Gen::generate(r, d)) }
    fn same(&self, o: &Self) -> bool { self == o }
    fn rebuild(&self, r: &mut Rng) -> Self { Self(self.0, String::new(), self.2.rebuild(r), 0, self.4) }
}

#[derive(Debug, Clone, PartialEq, Encode, Decode, Identifiable)]
pub struct SkipGenTup<T>(#[serialize(skip)] pub u8, pub T, #[serialize(skip)] pub u16, pub u32);
impl<T: StableHash> StableHash for SkipGenTup<T> {
    fn stable_hash<H: qbice_stable_hash::StableHasher + ?Sized>(&self, st: &mut H) {
        self.1.stable_hash(st);
        self.3.stable_hash(st);
    }
}
impl<T: Gen> Gen for SkipGenTup<T> {
    fn generate(r: &mut Rng, d: u32) -> Self { Self(0, T::generate(r, d), 0, Gen::generate(r, d)) }
    fn same(&self, o: &Self) -> bool { self.1.same(&o.1) && self.3 == o.3 && self.0 == o.0 && self.2 == o.2 }
    fn rebuild(&self, r: &mut Rng) -> Self { Self(0, self.1.rebuild(r), 0, self.3) }
}

#[derive(Debug, Clone, PartialEq, Encode, Decode, Identifiable)]
pub struct SkipNamedEnds {
    #[serialize(skip)]
    pub first: u32,
    pub mid: String,
    pub mid2: i8,
    #[serialize(skip)]
    pub last: Option<u8>,
}
skip_hash!(SkipNamedEnds, |s, st| { s.mid.stable_hash(st); s.mid2.stable_hash(st); });
impl Gen for SkipNamedEnds {
    fn generate(r: &mut Rng, d: u32) -> Self { Self { first: 0, mid: Gen::generate(r, d.min(1)), mid2: Gen::generate(r, d), last: None } }
    fn same(&self, o: &Self) -> bool { self == o }
    fn rebuild(&self, r: &mut Rng) -> Self { Self { first: 0, mid: self.mid.rebuild(r), mid2: self.mid2, last: None } }
}

#[derive(Debug, Clone, PartialEq, Encode, Decode, Identifiable)]
pub enum SkipEnum {
    A(#[serialize(skip)] u8, u32, String),
    B(u32, #[serialize(skip)] u64, u32),
    C {
        x: u16,
        #[serialize(skip)]
        y: u16,
        z: u16,
    },
    D {
        #[serialize(skip)]
        p: String,
        q: Vec<u16>,
    },
    E,
}
impl StableHash for SkipEnum {
    fn stable_hash<H: qbice_stable_hash::StableHasher + ?Sized>(&self, st: &mut H) {
        match self {
            Self::A(_, a, b) => { 0u8.stable_hash(st); a.stable_hash(st); b.stable_hash(st); }
            Self::B(a, _, b) => { 1u8.stable_hash(st); a.stable_hash(st); b.stable_hash(st); }
            Self::C { x, z, .. } => { 2u8.stable_hash(st); x.stable_hash(st); z.stable_hash(st); }
            Self::D { q, .. } => { 3u8.stable_hash(st); q.stable_hash(st); }
            Self::E => 4u8.stable_hash(st),
        }
    }
}
impl Gen for SkipEnum {
    fn generate(r: &mut Rng, d: u32) -> Self {
        match r.below(5) {
            0 => Self::A(0, Gen::generate(r, d), Gen::generate(r, d.min(1))),
            1 => Self::B(Gen::generate(r, d), 0, Gen::generate(r, d)),
            2 => Self::C { x: Gen::generate(r, d), y: 0, z: Gen::generate(r, d) },
            3 => Self::D { p: String::new(), q: Gen::generate(r, d.min(1)) },
            _ => Self::E,
        }
    }
    fn same(&self, o: &Self) -> bool { self == o }
    fn rebuild(&self, _r: &mut Rng) -> Self { self.clone() }
}

#[derive(Debug, Clone, PartialEq, Encode, Decode, StableHash, Identifiable)]
pub enum EnumA {
    Unit,
    Tuple(i32, String),
    Struct { x: u64, y: Option<u8> },
    Other(i32, String),
    Nested(Option<Box<EnumA>>),
}
impl Gen for EnumA {
    fn generate(r: &mut Rng, d: u32) -> Self {
        match r.below(5) {
            0 => Self::Unit,
            1 => Self::Tuple(Gen::generate(r, d), Gen::generate(r, d.min(1))),
            2 => Self::Struct { x: Gen::generate(r, d), y: Gen::generate(r, d) },
            3 => Self::Other(Gen::generate(r, d), Gen::generate(r, d.min(1))),
            _ => Self::Nested(if d == 0 || r.chance(1, 2) {
                None
            } else {
                Some(Box::new(Self::generate(r, d - 1)))
            }),
        }
    }
    fn same(&self, o: &Self) -> bool { self == o }
    fn rebuild(&self, _r: &mut Rng) -> Self { self.clone() }
}

#[derive(Debug, Clone, PartialEq, Encode, Decode, StableHash, Identifiable)]
pub enum GenE<T> {
    A(T),
    B { v: T, n: u8 },
    C,
}
impl<T: Gen> Gen for GenE<T> {
    fn generate(r: &mut Rng, d: u32) -> Self {
        match r.below(3) {
            0 => Self::A(T::generate(r, d.min(2))),
            1 => Self::B { v: T::generate(r, d.min(2)), n: Gen::generate(r, d) },
            _ => Self::C,
        }
    }
    fn same(&self, o: &Self) -> bool {
        match (self, o) {
            (Self::A(a), Self::A(b)) => a.same(b),
            (Self::B { v: a, n }, Self::B { v: b, n: m }) => a.same(b) && n == m,
            (Self::C, Self::C) => true,
            _ => false,
        }
    }
    fn rebuild(&self, r: &mut Rng) -> Self {
        match self {
            Self::A(a) => Self::A(a.rebuild(r)),
            Self::B { v, n } => Self::B { v: v.rebuild(r), n: *n },
            Self::C => Self::C,
        }
    }
}

macro_rules! id_mod {
    ($m:ident) => {
        pub mod $m {
            use qbice_stable_type_id::Identifiable;
            #[derive(Debug, Identifiable)]
            pub struct P0;
            #[derive(Debug, Identifiable)]
            pub struct P1(pub u8);
            #[derive(Debug, Identifiable)]
            pub struct G1<T>(pub T);
            #[derive(Debug, Identifiable)]
            pub struct G2<A, B>(pub A, pub B);
            #[derive(Debug, Identifiable)]
            pub struct G3<A, B, C>(pub A, pub B, pub C);
        }
    };
}
id_mod!(ma);
id_mod!(mb);
