//! C16 - the admission cache never evicts pinned entries and stays bounded;
//! the lock table built on it never splits a lock.

use std::{
    collections::{HashMap, HashSet},
    panic::{AssertUnwindSafe, catch_unwind},
    sync::{
        Arc,
        atomic::{AtomicBool, AtomicI64, AtomicU64, Ordering},
    },
};

use qbice::{engine::verif::LockTable, query::QueryID};
use qbice_stable_hash::Compact128;
use qbice_storage::tiny_lfu::{Entry, LifecycleListener, MaintenanceMode, TinyLFU, UnpinStrategy};

use crate::{
    sup::{self, CheckMeta, PartSpec, Report, Tier, Violation, WorkerCtx},
    util::{Json, Rng, h64},
};

pub fn meta(tier: Tier) -> CheckMeta {
    CheckMeta {
        id: "C16",
        level: "exploration",
        rule: "random histories of get / insert / update / remove / pin / unpin(+notify) on the public TinyLFU over a \
               key universe 4-50x capacity, capacities 1..300, both unpin strategies and maintenance modes, one \
               thread and per-key-owner multi-thread; oracle: a pinned, inserted-not-removed key is always found \
               with its latest value; any hit returns the latest value; resident entries (probed through entry()) \
               <= policy capacity + currently pinned + 2*33 + 2*threads; no panic on any op. Lock table \
               (capacity 2-8): tasks lock a hot set of ids while others churn cold ids; counters inside the \
               critical section prove mutual exclusion. distinct = hash(config, op sequence); non-trivial = \
               history in which at least one eviction and one pinned-victim event was observed.",
        assumptions: vec![
            "effective capacity = the policy's own window+protected+probation sum (probation is at least 1)".into(),
            "maintenance lag (two 32-message buffers) is legitimate slack".into(),
        ],
        parts: {
            let mut parts = vec![PartSpec { name: "native", nshards: 16, budget_s: tier.pick(300, 2400), env: vec![], program: None, prepare: None, sanitizer: None }];
            if tier == Tier::Thorough || true { parts.push(crate::sup::sanitizer_part("miri", 4, tier.pick(900, 2400))); }
            if tier == Tier::Thorough { parts.push(crate::sup::sanitizer_part("tsan", 8, 2400)); }
            if tier == Tier::Thorough { parts.push(crate::sup::sanitizer_part("asan", 8, 2400)); }
            parts
        },
        must_be_nonzero: vec![
            ("evictions_observed", "no eviction observed"),
            ("pinned_survived_pressure", "no pinned entry was ever under eviction pressure"),
            ("lock_sections", "lock table part did not run"),
        ],
    }
}

pub struct Val {
    pub val: AtomicU64,
    pub pinned: AtomicBool,
}

#[derive(Default)]
pub struct PinListener;
impl LifecycleListener<u32, Val> for PinListener {
    fn is_pinned(&self, _k: &u32, v: &Val) -> bool { v.pinned.load(Ordering::SeqCst) }
}

type Cache = TinyLFU<u32, Val, PinListener>;

pub fn effective_capacity(cap: usize) -> usize {
    let window = (cap as f64 * 0.01).ceil() as usize;
    let main = cap - window;
    let protected = (main as f64 * 0.8).ceil() as usize;
    let probation = (main - protected).max(1);
    window + protected + probation
}

#[derive(Clone, Copy, Debug)]
pub enum Op {
    Get(u32),
    Put(u32, u64),
    Remove(u32),
    Pin(u32),
    Unpin(u32),
}

#[derive(Default)]
struct Model {
    /// keys the harness inserted and did not remove: latest value, pinned?
    live: HashMap<u32, (u64, bool)>,
}

pub struct Outcome {
    pub evictions: u64,
    pub pinned_pressure: u64,
    pub max_resident: usize,
}

fn resident(cache: &Cache, universe: u32) -> usize {
    let mut n = 0;
    for k in 0..universe {
        let occ = cache.entry(k, |e| matches!(e, Entry::Occupied(_)));
        if occ {
            n += 1;
        }
    }
    n
}

/// Give maintenance the chance to run (insert+remove noise keys outside the
/// universe: every pair enqueues two policy messages) until the number of
/// resident entries is within `bound`; returns the last count. A legitimate
/// lag drains, a leak does not.
/// Give maintenance the chance to catch up (a lag drains, a leak does not): keep
/// touching throw-away keys for as long as the resident count still goes down;
/// give up after 400 + 2 x pinned rounds without progress. (With the Poll strategy one
/// maintenance pass examines the parked entries from the oldest one and stops at the
/// first that is still pinned, moving it to the back: reaching a released entry that
/// sits behind p pinned ones takes p passes.)
fn drain_to_bound(cache: &Cache, universe: u32, bound: usize, pinned_now: usize) -> usize {
    let mut res_n = resident(cache, universe);
    let mut noise = universe + 1_000_000;
    let mut i = 0;
    let mut stalled = 0;
    // ... and, because the maintenance thread may simply not have been scheduled on a busy
    // machine, not before 2 s have passed without progress either
    let mut last_progress = std::time::Instant::now();
    while res_n > bound && i < 2_000_000 && (stalled < 400 + 2 * pinned_now || last_progress.elapsed() < std::time::Duration::from_secs(2)) {
        for _ in 0..40 {
            noise += 1;
            cache.entry(noise, |e| {
                if let Entry::Vacant(v) = e {
                    v.insert(Val { val: AtomicU64::new(0), pinned: AtomicBool::new(false) });
                }
            });
            cache.entry(noise, |e| {
                if let Entry::Occupied(o) = e {
                    let _ = o.remove();
                }
            });
        }
        if i % 8 == 7 {
            std::thread::sleep(std::time::Duration::from_micros(200));
        }
        let now = resident(cache, universe);
        if std::env::var("QV_C16_DEBUG").is_ok() && i % 100 == 0 {
            eprintln!("DEBUG drain round {i}: resident {now} bound {bound} stalled {stalled}");
        }
        if now < res_n {
            last_progress = std::time::Instant::now();
            stalled = 0;
        } else {
            stalled += 1;
        }
        res_n = now;
        i += 1;
    }
    res_n
}

/// Single-owner history against one cache; `keys` are the keys this owner may
/// touch (disjoint between owners in the multi-thread variant).
fn apply(cache: &Cache, notify: bool, m: &mut Model, op: Op, out: &mut Outcome) -> Result<(), String> {
    match op {
        Op::Get(k) => {
            let got = cache.get_map(&k, |v| v.val.load(Ordering::SeqCst));
            match (m.live.get(&k), got) {
                (Some((v, pinned)), None) => {
                    if *pinned {
                        return Err(format!("pinned key {k} (value {v}) is gone"));
                    }
                    // legitimately evicted: forget it
                    m.live.remove(&k);
                    out.evictions += 1;
                }
                (Some((v, _)), Some(g)) => {
                    if g != *v {
                        return Err(format!("key {k}: hit returned {g}, latest value written is {v}"));
                    }
                }
                (None, Some(g)) => return Err(format!("key {k} was removed/never inserted but get returned {g}")),
                (None, None) => {}
            }
        }
        Op::Put(k, v) => {
            let was_live_in_cache = cache.entry(k, |e| match e {
                Entry::Vacant(vac) => {
                    vac.insert(Val { val: AtomicU64::new(v), pinned: AtomicBool::new(false) });
                    false
                }
                Entry::Occupied(occ) => {
                    occ.get().val.store(v, Ordering::SeqCst);
                    true
                }
            });
            match m.live.get_mut(&k) {
                Some(e) => {
                    if !was_live_in_cache {
                        if e.1 {
                            return Err(format!("pinned key {k} was not resident at update"));
                        }
                        out.evictions += 1;
                        e.1 = false;
                    }
                    e.0 = v;
                }
                None => {
                    if was_live_in_cache {
                        return Err(format!("key {k} resident although never inserted / removed"));
                    }
                    m.live.insert(k, (v, false));
                }
            }
        }
        Op::Remove(k) => {
            let had = cache.entry(k, |e| match e {
                Entry::Vacant(_) => false,
                Entry::Occupied(occ) => {
                    let _ = occ.remove();
                    true
                }
            });
            if let Some((_, pinned)) = m.live.remove(&k) {
                if pinned && !had {
                    return Err(format!("pinned key {k} was not resident at remove"));
                }
                if !had {
                    out.evictions += 1;
                }
            } else if had {
                return Err(format!("key {k} resident although not live in the model"));
            }
        }
        Op::Pin(k) => {
            if let Some(e) = m.live.get_mut(&k) {
                let ok = cache.entry(k, |en| match en {
                    Entry::Occupied(occ) => {
                        occ.get().pinned.store(true, Ordering::SeqCst);
                        true
                    }
                    Entry::Vacant(_) => false,
                });
                if ok {
                    e.1 = true;
                } else {
                    if e.1 {
                        return Err(format!("pinned key {k} not resident at pin"));
                    }
                    m.live.remove(&k);
                    out.evictions += 1;
                }
            }
        }
        Op::Unpin(k) => {
            if let Some(e) = m.live.get_mut(&k) {
                if e.1 {
                    e.1 = false;
                    let ok = cache.entry(k, |en| match en {
                        Entry::Occupied(occ) => {
                            occ.get().pinned.store(false, Ordering::SeqCst);
                            true
                        }
                        Entry::Vacant(_) => false,
                    });
                    if !ok {
                        return Err(format!("pinned key {k} not resident at unpin"));
                    }
                    if notify {
                        cache.unpin(k);
                    }
                }
            }
        }
    }
    Ok(())
}

fn gen_op(r: &mut Rng, universe: u32, hot: u32) -> Op {
    let k = if r.chance(1, 2) { r.below(u64::from(hot)) as u32 } else { r.below(u64::from(universe)) as u32 };
    match r.below(20) {
        0..=6 => Op::Get(k),
        7..=13 => Op::Put(k, r.next_u64() >> 8),
        14 => Op::Remove(k),
        15..=17 => Op::Pin(k),
        _ => Op::Unpin(k),
    }
}

fn panic_msg(p: &Box<dyn std::any::Any + Send>) -> String {
    p.downcast_ref::<String>().cloned().or_else(|| p.downcast_ref::<&str>().map(|s| (*s).to_string())).unwrap_or_else(|| "?".into())
}

fn signature(kind: &str, detail: &str) -> String {
    if kind == "panic" && detail.contains("policy.rs") && detail.contains("unwrap") {
        return "C16/panic in tiny_lfu/policy.rs Policy::unpin: Option::unwrap() on empty probation region".into();
    }
    format!("C16/{kind}")
}

struct Cfg {
    cap: usize,
    universe: u32,
    hot: u32,
    notify: bool,
    dedicated: bool,
    len: usize,
}

/// A pin that is held for the whole history while hundreds of other keys are
/// pinned, pushed out (found pinned by the eviction, i.e. parked) and released
/// again: what a long-running query does to the per-query lock table. Everything
/// released must be evictable again, whatever is still held.
fn long_pin_script(r: &mut Rng, cap: usize) -> (Vec<Op>, u32) {
    let n = 300 + r.usize_below(500);
    let noise0 = 1 + n as u32;
    let noise_n = (cap as u32 * 6).max(64);
    let mut ops = vec![Op::Put(0, 1), Op::Pin(0)];
    let mut nz = 0u32;
    let hold = 1 + r.usize_below(4);
    let mut held: std::collections::VecDeque<u32> = std::collections::VecDeque::new();
    for i in 0..n as u32 {
        let k = 1 + i;
        ops.push(Op::Put(k, u64::from(k)));
        ops.push(Op::Pin(k));
        held.push_back(k);
        // pressure: cold keys, enough of them to push `k` through the regions
        for _ in 0..(2 * cap + 4 + r.usize_below(2 * cap + 4)) {
            let c = noise0 + (nz % noise_n);
            nz += 1;
            ops.push(Op::Put(c, 7));
            if r.chance(1, 3) {
                ops.push(Op::Get(c));
            }
        }
        ops.push(Op::Get(0));
        // read the entries that are still pinned (by now they have been found pinned by the
        // eviction and are parked) - a hit on a parked entry must not change its accounting -
        // and give maintenance a few more writes to drain those hits
        if r.chance(1, 2) {
            for h in &held {
                ops.push(Op::Get(*h));
            }
            for _ in 0..(cap + 2) {
                let c = noise0 + (nz % noise_n);
                nz += 1;
                ops.push(Op::Put(c, 7));
            }
        }
        while held.len() > hold {
            ops.push(Op::Unpin(held.pop_front().unwrap()));
        }
    }
    while let Some(k) = held.pop_front() {
        ops.push(Op::Unpin(k));
    }
    // a last round of pressure so that maintenance has run after the releases
    for _ in 0..(4 * cap + 64) {
        let c = noise0 + (nz % noise_n);
        nz += 1;
        ops.push(Op::Put(c, 7));
    }
    (ops, noise0 + noise_n + 1)
}

fn single_thread_history(ctx: &WorkerCtx, rep: &mut Report, r: &mut Rng, c: &Cfg, case: &str) -> bool {
    scripted_history(ctx, rep, r, c, case, None)
}

fn scripted_history(ctx: &WorkerCtx, rep: &mut Report, r: &mut Rng, c: &Cfg, case: &str, script: Option<&[Op]>) -> bool {
    let cache: Cache = TinyLFU::new(
        c.cap,
        if c.notify { UnpinStrategy::Notify } else { UnpinStrategy::Poll },
        if c.dedicated { MaintenanceMode::DedicatedThread } else { MaintenanceMode::Piggyback },
    );
    let mut m = Model::default();
    let mut out = Outcome { evictions: 0, pinned_pressure: 0, max_resident: 0 };
    let mut ops: Vec<Op> = Vec::new();
    let mark = sup::panic_mark();
    let bound_slack = 2 * 33 + 2;
    for i in 0..c.len {
        let op = script.map_or_else(|| gen_op(r, c.universe, c.hot), |s| s[i]);
        ops.push(op);
        let res = catch_unwind(AssertUnwindSafe(|| apply(&cache, c.notify, &mut m, op, &mut out)));
        let fail: Option<(String, String)> = match res {
            Ok(Ok(())) => None,
            Ok(Err(e)) => Some(("wrong-answer".into(), e)),
            Err(p) => {
                let locs = sup::panics_since(mark).join(" | ");
                Some(("panic".into(), format!("{} [{}]", panic_msg(&p), locs)))
            }
        };
        let fail = fail.or_else(|| {
            // a panic on the maintenance thread does not unwind into us
            let ps = sup::panics_since(mark);
            if ps.is_empty() { None } else { Some(("panic".into(), ps.join(" | "))) }
        });
        if fail.is_none() && (i % 257 == 256 || i + 1 == c.len) {
            let pinned_now = m.live.values().filter(|e| e.1).count();
            let bound = effective_capacity(c.cap) + pinned_now + bound_slack;
            let last = i + 1 == c.len;
            let res_n = if last {
                drain_to_bound(&cache, c.universe, bound, pinned_now)
            } else {
                resident(&cache, c.universe)
            };
            let ps = sup::panics_since(mark);
            if !ps.is_empty() {
                report(ctx, rep, case, c, &ops, "panic", &ps.join(" | "));
                return false;
            }
            out.max_resident = out.max_resident.max(res_n);
            if pinned_now > 0 && res_n >= effective_capacity(c.cap) {
                out.pinned_pressure += pinned_now as u64;
            }
            if last && res_n > bound {
                let d = format!("after draining maintenance: {res_n} resident entries > capacity {} + pinned {pinned_now} + slack {bound_slack}", effective_capacity(c.cap));
                report(ctx, rep, case, c, &ops, "bound-exceeded", &d);
                return false;
            }
            // every pinned live key must be readable now
            for (k, (v, p)) in &m.live {
                if *p {
                    let got = cache.entry(*k, |e| match e {
                        Entry::Occupied(o) => Some(o.get().val.load(Ordering::SeqCst)),
                        Entry::Vacant(_) => None,
                    });
                    if got != Some(*v) {
                        report(ctx, rep, case, c, &ops, "pinned-entry-lost", &format!("key {k}: {got:?} instead of {v}"));
                        return false;
                    }
                }
            }
        }
        if let Some((kind, detail)) = fail {
            report(ctx, rep, case, c, &ops, &kind, &detail);
            return false;
        }
    }
    rep.count("ops", c.len as u64);
    rep.count("evictions_observed", out.evictions);
    rep.count("pinned_survived_pressure", out.pinned_pressure);
    rep.max("resident_entries", out.max_resident as u64);
    if out.evictions > 0 && out.pinned_pressure > 0 {
        rep.distinct.insert(h64(&(c.cap, c.universe, c.notify, c.dedicated, format!("{:?}", &ops[..ops.len().min(64)]))));
    }
    true
}

fn report(ctx: &WorkerCtx, rep: &mut Report, case: &str, c: &Cfg, ops: &[Op], kind: &str, detail: &str) {
    rep.count("violations", 1);
    let tail: Vec<Json> = ops.iter().rev().take(40).rev().map(|o| Json::Str(format!("{o:?}"))).collect();
    ctx.violation(&Violation {
        signature: signature(kind, detail),
        what: format!("{kind}: {detail}"),
        witness: Json::obj()
            .set("case", case)
            .set("capacity", c.cap)
            .set("universe", c.universe)
            .set("unpin_strategy", if c.notify { "Notify" } else { "Poll" })
            .set("maintenance", if c.dedicated { "DedicatedThread" } else { "Piggyback" })
            .set("ops_executed", ops.len())
            .set("last_ops", Json::Arr(tail)),
    });
}

fn multi_thread_history(ctx: &WorkerCtx, rep: &mut Report, r: &mut Rng, c: &Cfg, threads: usize, case: &str) -> bool {
    let cache: Arc<Cache> = Arc::new(TinyLFU::new(
        c.cap,
        if c.notify { UnpinStrategy::Notify } else { UnpinStrategy::Poll },
        if c.dedicated { MaintenanceMode::DedicatedThread } else { MaintenanceMode::Piggyback },
    ));
    let mark = sup::panic_mark();
    let pinned_total = Arc::new(AtomicI64::new(0));
    let mut hs = Vec::new();
    for t in 0..threads {
        let cache = cache.clone();
        let mut rr = r.derive(t as u64 + 1);
        let (universe, hot, len, notify) = (c.universe, c.hot, c.len / threads, c.notify);
        let pinned_total = pinned_total.clone();
        hs.push(std::thread::spawn(move || -> Result<(u64, u64), (String, String)> {
            let mut m = Model::default();
            let mut out = Outcome { evictions: 0, pinned_pressure: 0, max_resident: 0 };
            for _ in 0..len {
                let mut op = gen_op(&mut rr, universe, hot);
                // per-key owner: key k belongs to thread k % threads
                let fix = |k: u32| k - (k % threads as u32) + t as u32;
                op = match op {
                    Op::Get(k) => Op::Get(fix(k)),
                    Op::Put(k, v) => Op::Put(fix(k), v),
                    Op::Remove(k) => Op::Remove(fix(k)),
                    Op::Pin(k) => Op::Pin(fix(k)),
                    Op::Unpin(k) => Op::Unpin(fix(k)),
                };
                let before = m.live.values().filter(|e| e.1).count() as i64;
                let res = catch_unwind(AssertUnwindSafe(|| apply(&cache, notify, &mut m, op, &mut out)));
                let after = m.live.values().filter(|e| e.1).count() as i64;
                pinned_total.fetch_add(after - before, Ordering::SeqCst);
                match res {
                    Ok(Ok(())) => {}
                    Ok(Err(e)) => return Err(("wrong-answer".into(), format!("thread {t}: {e} at {op:?}"))),
                    Err(p) => return Err(("panic".into(), format!("thread {t}: {}", panic_msg(&p)))),
                }
            }
            Ok((out.evictions, m.live.values().filter(|e| e.1).count() as u64))
        }));
    }
    let mut ok = true;
    let mut ev = 0;
    for h in hs {
        match h.join() {
            Ok(Ok((e, _))) => ev += e,
            Ok(Err((kind, detail))) => {
                let locs = sup::panics_since(mark).join(" | ");
                report(ctx, rep, case, c, &[], &kind, &format!("{detail} [{locs}]"));
                ok = false;
            }
            Err(_) => {
                report(ctx, rep, case, c, &[], "panic", "worker thread panicked outside an op");
                ok = false;
            }
        }
    }
    if ok {
        let ps = sup::panics_since(mark);
        if !ps.is_empty() {
            report(ctx, rep, case, c, &[], "panic", &ps.join(" | "));
            return false;
        }
        let pinned_now = pinned_total.load(Ordering::SeqCst).max(0) as usize;
        let bound = effective_capacity(c.cap) + pinned_now + 2 * 33 + 2 * threads;
        let res_n = drain_to_bound(&cache, c.universe + threads as u32, bound, pinned_now);
        rep.max("resident_entries_mt", res_n as u64);
        if res_n > bound {
            report(ctx, rep, case, c, &[], "bound-exceeded", &format!("after draining maintenance: {res_n} resident > {bound} (pinned {pinned_now}, {threads} threads)"));
            return false;
        }
        rep.count("ops", c.len as u64);
        rep.count("evictions_observed", ev);
        rep.count("mt_histories", 1);
    }
    ok
}

// ---------------------------------------------------------------------------
// lock table

fn qid(n: u64) -> QueryID {
    QueryID::from_parts(Compact128::from(0xABCDu128), Compact128::from(u128::from(n) * 0x9E37_79B9_7F4A_7C15 + 1))
}

fn lock_table_round(ctx: &WorkerCtx, rep: &mut Report, r: &mut Rng, case: &str) -> bool {
    let cap = 2 + r.below(7);
    let hot_n = 1 + r.below(4);
    let tasks = 4 + r.usize_below(12);
    let iters = ctx.pick(300, 3000);
    let workers = *r.pick(&[1usize, 2, 4, 8]);
    let rt = if workers == 1 {
        tokio::runtime::Builder::new_current_thread().enable_all().build().unwrap()
    } else {
        tokio::runtime::Builder::new_multi_thread().worker_threads(workers).enable_all().build().unwrap()
    };
    let table = Arc::new(LockTable::new(cap));
    // per hot id: (#exclusive holders, #shared holders)
    let state: Arc<Vec<(AtomicI64, AtomicI64)>> =
        Arc::new((0..hot_n).map(|_| (AtomicI64::new(0), AtomicI64::new(0))).collect());
    let bad = Arc::new(parking_lot::Mutex::new(Vec::<String>::new()));
    let sections = Arc::new(AtomicU64::new(0));
    let seed = r.next_u64();
    rt.block_on(async {
        let mut hs = Vec::new();
        for t in 0..tasks {
            let table = table.clone();
            let state = state.clone();
            let bad = bad.clone();
            let sections = sections.clone();
            hs.push(tokio::spawn(async move {
                let mut r = Rng::new(seed).derive(t as u64);
                let mut cold = 1000 + t as u64 * 1_000_000;
                for _ in 0..iters {
                    if r.chance(1, 2) {
                        // churn: touch cold ids to force eviction in the table
                        for _ in 0..r.below(40) {
                            cold += 1;
                            let g = table.shared(&qid(cold)).await;
                            drop(g);
                        }
                    }
                    let h = r.below(hot_n) as usize;
                    let id = qid(h as u64);
                    if r.chance(1, 3) {
                        let g = table.exclusive(&id).await;
                        let e = state[h].0.fetch_add(1, Ordering::SeqCst);
                        let s = state[h].1.load(Ordering::SeqCst);
                        if e != 0 || s != 0 {
                            bad.lock().push(format!("exclusive lock of hot id {h} held together with {e} exclusive / {s} shared holders"));
                        }
                        if r.chance(1, 2) {
                            tokio::task::yield_now().await;
                        }
                        for _ in 0..r.below(30) {
                            cold += 1;
                            drop(table.shared(&qid(cold)).await);
                        }
                        state[h].0.fetch_sub(1, Ordering::SeqCst);
                        drop(g);
                    } else {
                        let g = table.shared(&id).await;
                        state[h].1.fetch_add(1, Ordering::SeqCst);
                        let e = state[h].0.load(Ordering::SeqCst);
                        if e != 0 {
                            bad.lock().push(format!("shared lock of hot id {h} held together with {e} exclusive holders"));
                        }
                        if r.chance(1, 2) {
                            tokio::task::yield_now().await;
                        }
                        state[h].1.fetch_sub(1, Ordering::SeqCst);
                        drop(g);
                    }
                    sections.fetch_add(1, Ordering::Relaxed);
                }
            }));
        }
        for h in hs {
            let _ = h.await;
        }
    });
    rep.count("lock_sections", sections.load(Ordering::Relaxed));
    rep.evaluations += 1;
    let b = bad.lock();
    if let Some(first) = b.first() {
        ctx.violation(&Violation {
            signature: "C16/lock-table-split-lock".into(),
            what: first.clone(),
            witness: Json::obj().set("case", case).set("capacity", cap).set("hot_ids", hot_n).set("tasks", tasks).set("workers", workers).set("seed", seed).set("violations", b.len()),
        });
        return false;
    }
    rep.distinct.insert(h64(&("lock", cap, hot_n, tasks, workers, seed)));
    true
}

pub fn worker(ctx: &WorkerCtx) -> Report {
    let mut rep = Report::default();
    let base = Rng::new(ctx.seed).derive(1600 + ctx.shard as u64);
    let n: u64 = if ctx.part == "miri" { 2 } else { ctx.pick(300, 5000) };
    let mut seen_sig: HashSet<String> = HashSet::new();
    for i in 0..n {
        let mut r = base.derive(i);
        let cap = match r.below(4) {
            _ if ctx.part == "miri" => 1 + r.usize_below(6),
            0 => 1 + r.usize_below(10),
            1 => 10 + r.usize_below(40),
            _ => 1 + r.usize_below(300),
        };
        let universe = if ctx.part == "miri" { (cap as u32) * 5 + 4 } else { (cap as u32) * (4 + r.below(46) as u32) + 8 };
        let c = Cfg {
            cap,
            universe,
            hot: (cap as u32 * 2).max(4),
            notify: r.chance(1, 2),
            dedicated: r.chance(1, 4),
            len: if ctx.part == "miri" { 500 } else { ctx.pick(8_000, 60_000) },
        };
        let case = format!("tinylfu#{i} cap={cap} universe={universe} notify={} dedicated={}", c.notify, c.dedicated);
        if let Ok(f) = std::env::var("QV_C16_CASE") {
            if f != i.to_string() {
                continue;
            }
        }
        ctx.announce(&case);
        rep.evaluations += 1;
        let before = rep.counters.get("violations").copied().unwrap_or(0);
        if i % 4 == 3 && ctx.part != "miri" {
            let threads = *r.pick(&[2usize, 4, 8]);
            multi_thread_history(ctx, &mut rep, &mut r, &c, threads, &case);
        } else {
            single_thread_history(ctx, &mut rep, &mut r, &c, &case);
        }
        let _ = before;
        let _ = &mut seen_sig;
        if i == 0 {
            rep.sample(Json::obj().set("case", case.as_str()).set("len", c.len));
        }
    }
    for i in 0..if ctx.part == "miri" { 0 } else { ctx.pick(30u64, 600) } {
        let mut r = base.derive(20_000 + i);
        let cap = 1 + r.usize_below(24);
        let (script, universe) = long_pin_script(&mut r, cap);
        let c = Cfg { cap, universe, hot: 4, notify: r.chance(1, 3), dedicated: r.chance(1, 4), len: script.len() };
        let case = format!("tinylfu-long-held-pin#{i} cap={cap} universe={universe} notify={} dedicated={} ops={}", c.notify, c.dedicated, script.len());
        ctx.announce(&case);
        rep.evaluations += 1;
        rep.count("long_held_pin_histories", 1);
        scripted_history(ctx, &mut rep, &mut r, &c, &case, Some(&script));
    }
    if ctx.part != "miri" {
        for i in 0..ctx.pick(20, 300) {
            let mut r = base.derive(10_000 + i);
            let case = format!("locktable#{i}");
            ctx.announce(&case);
            lock_table_round(ctx, &mut rep, &mut r, &case);
        }
    }
    rep
}
