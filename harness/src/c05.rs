//! C05 - cancellation or an executor panic never corrupts the engine.
//!
//! Fault enumeration: for a target operation at a chosen point of a history,
//! count its polls under the maximal-yield policy, then re-create the same
//! state and drop the operation after k polls for every k (or a seeded
//! sample), and run the post-mortem monitors.

use std::{
    collections::HashMap,
    future::Future,
    panic::AssertUnwindSafe,
    pin::Pin,
    sync::{Arc, atomic::Ordering},
    task::{Context, Poll},
    time::Duration,
};

use futures::FutureExt;
use qbice::{Engine, engine::YieldFrequency};

use crate::{
    c01::BackendSpec,
    c04::starved,
    eng::{Backend, MemBackend, Oracle, closure, open_engine, prerepair_tfc, query_node, shutdown},
    hooks::{self, YieldPolicy},
    model::{ExecCtx, GenParams, In, Kind, NodeId, Program, X, gen_family, gen_program, inputs_of},
    reckv::Grouping,
    sup::{self, CheckMeta, PartSpec, Report, Tier, Violation, WorkerCtx},
    util::{Json, Rng, h64, proc_cpu_ticks},
};

pub fn meta(tier: Tier) -> CheckMeta {
    CheckMeta {
        id: "C05",
        level: "fault_enumeration",
        rule: "crash points = polls of one target operation (query(root) | input_session() | set_input | update | \
               refresh | commit) placed after a generated history prefix; the operation's poll count K is measured \
               under the maximal-yield policy (every `pre:` hook site yields once, first poll coop-starved), then \
               for every k in 0..K (quick: seeded sample incl. first/last; thorough: all) the same state is rebuilt \
               and the future is dropped after k polls. Panics: every executor of the program in turn panics as a \
               pure function of its inputs. Post-mortem per point: no panic other than the injected one; the \
               panic payload reaches the caller; every root re-queried on a new tracked engine completes and \
               equals the reference (an interrupted write may or may not have taken effect: both are accepted, \
               decided by reading the input back); one more session changing every leaf in turn, values == \
               reference; engine shuts down; RecKv's commit log holds every batch epoch without a hole; an \
               engine reopened on the store equals the reference. distinct = hash(program, target, k); \
               non-trivial = k strictly inside the operation (0 < k < K).",
        assumptions: vec![
            "suspension points are the engine's own awaits plus `pre:` hook sites placed immediately before an await that can itself return Pending".into(),
            "executor panics are pure functions of inputs; abort of the whole runtime is out of scope".into(),
            "a post-mortem step that does not finish within 20 s is a deadlock only if the process is quiescent, else inconclusive".into(),
        ],
        parts: vec![PartSpec { name: "native", nshards: 16, budget_s: tier.pick(400, 3000), env: vec![], program: None, prepare: None, sanitizer: None }],
        must_be_nonzero: vec![
            ("cancel_points_inside_operation", "no cancellation strictly inside an operation"),
            ("hook_yields", "pre: sites never yielded"),
            ("panic_cases", "no executor panic case ran"),
        ],
    }
}

struct CancelAfter<F> {
    inner: Option<Pin<Box<F>>>,
    left: usize,
    polls: usize,
    /// drop the operation right after its k-th poll returned Pending (what
    /// `select!` against a ready branch does) instead of at the next wake-up
    eager: bool,
}

impl<F: Future> Future for CancelAfter<F> {
    /// Some(output) if completed, None if cancelled; plus number of polls done
    type Output = (Option<F::Output>, usize);

    fn poll(mut self: Pin<&mut Self>, cx: &mut Context<'_>) -> Poll<Self::Output> {
        if self.left == 0 {
            self.inner = None; // drop the operation here
            return Poll::Ready((None, self.polls));
        }
        self.left -= 1;
        self.polls += 1;
        let r = self.inner.as_mut().unwrap().as_mut().poll(cx);
        match r {
            Poll::Ready(v) => {
                self.inner = None;
                Poll::Ready((Some(v), self.polls))
            }
            Poll::Pending if self.eager && self.left == 0 => {
                self.inner = None; // drop the operation while it is suspended
                Poll::Ready((None, self.polls))
            }
            Poll::Pending => Poll::Pending,
        }
    }
}

fn cancel_after<F: Future>(f: F, k: usize, eager: bool) -> CancelAfter<F> { CancelAfter { inner: Some(Box::pin(f)), left: k, polls: 0, eager } }

#[derive(Clone, Debug)]
enum Target {
    Query(NodeId),
    OpenSession,
    /// open session while a reader still holds a tracked engine (the session
    /// call has to wait for the phase lock)
    OpenSessionContended,
    SetInput(u32, i64),
    Update(u32, i64),
    Refresh,
    Commit(u32, i64),
}

enum Wait {
    Done,
    Deadlock,
    Busy,
}

async fn bounded<F: Future>(f: F, secs: u64) -> Result<F::Output, Wait> {
    match tokio::time::timeout(Duration::from_secs(secs), f).await {
        Ok(v) => Ok(v),
        Err(_) => {
            let pid = std::process::id();
            let c0 = proc_cpu_ticks(pid).unwrap_or(0);
            tokio::time::sleep(Duration::from_secs(2)).await;
            let c1 = proc_cpu_ticks(pid).unwrap_or(0);
            if c1.saturating_sub(c0) <= 2 { Err(Wait::Deadlock) } else { Err(Wait::Busy) }
        }
    }
}

struct Built<B: Backend> {
    /// reference values of all nodes under the epoch-1 inputs
    v1: HashMap<NodeId, i64>,
    engine: Arc<Engine<B::C>>,
    ctx: Arc<ExecCtx>,
    or: Oracle,
    ins: Vec<u32>,
    xs: Vec<u32>,
}

async fn build<B: Backend>(b: &B, prog: &Arc<Program>, seed: u64) -> Built<B> {
    let mut r = Rng::new(seed);
    let ctx = ExecCtx::new(prog.clone());
    let mut or = Oracle::new(prog.clone());
    let engine = open_engine(b, &ctx, YieldFrequency::Never).await.expect("open");
    let (mut ins, xs) = inputs_of(prog);
    if ins.is_empty() {
        ins.push(0);
    }
    for x in &xs {
        ctx.cells.lock().insert(*x, 3);
        or.cells.insert(*x, 3);
    }
    // epoch 1: all inputs
    or.begin_session();
    ctx.epoch.store(or.epoch, Ordering::SeqCst);
    {
        let mut s = engine.input_session().await;
        for i in &ins {
            let v = r.range(1, 4);
            s.set_input(In(*i), v).await;
            or.refr.inputs.insert(*i, v);
        }
        s.commit().await;
    }
    // query about half of the nodes
    let nodes: Vec<NodeId> = prog.nodes.keys().copied().collect();
    let v1 = or.peek(&nodes);
    {
        let roots: Vec<NodeId> = nodes.iter().copied().filter(|_| r.chance(1, 2)).collect();
        let (exp, _) = or.expect(&roots);
        let t = engine.clone().tracked().await;
        for n in &roots {
            let v = query_node(&t, *n).await;
            assert_eq!(v, exp[n], "prefix query wrong (C01's business)");
        }
    }
    or.judge(&ctx.log.take(), false, true);
    // epoch 2: change one or two inputs, no query => dirty state for the target
    or.begin_session();
    ctx.epoch.store(or.epoch, Ordering::SeqCst);
    {
        let mut s = engine.input_session().await;
        for _ in 0..1 + r.below(2) {
            let i = *r.pick(&ins);
            let v = or.refr.inputs[&i] + 1 + r.range(0, 2);
            s.set_input(In(i), v).await;
            or.refr.inputs.insert(i, v);
        }
        s.commit().await;
    }
    Built { v1, engine, ctx, or, ins, xs }
}

struct PointResult {
    polls: usize,
    completed: bool,
    violations: Vec<(String, Json)>,
    inconclusive: Option<String>,
}

/// Run the target with cancellation after `k` polls, then the post-mortem.
async fn run_point<B: Backend>(b: &B, prog: &Arc<Program>, seed: u64, target: &Target, k: usize, shared: Option<&Arc<crate::reckv::Shared>>, prerepair_target: bool, immediate: bool, raw: Option<bool>) -> PointResult {
    // raw = Some(settle): eager cancellation, first re-query round without the user-level
    // firewall repair, then stop (differential mode, see the worker)
    if std::env::var("QV_C05_TRACE").is_ok() {
        eprintln!("TRACE C05 point target={target:?} k={k} immediate={immediate} raw={raw:?} pre={prerepair_target}");
    }
    let eager = immediate || raw.is_some();
    let settle = raw.unwrap_or(!immediate);
    let prog_ref: &Program = prog;
    let mut viol: Vec<(String, Json)> = Vec::new();
    let mut inconclusive = None;
    let Built { engine, ctx, mut or, ins, xs, .. } = build(b, prog, seed).await;
    let mark = sup::panic_mark();
    let all: Vec<NodeId> = prog.nodes.keys().copied().collect();
    let queryable: Vec<NodeId> = all.iter().copied().filter(|n| closure(prog, &[*n]).iter().all(|d| d.kind != Kind::In || or.refr.inputs.contains_key(&d.idx))).collect();

    hooks::set_yield(YieldPolicy::AllPre, seed ^ k as u64);
    let y0 = hooks::yields();
    let mut polls = 0;
    let mut completed = false;
    // inputs whose last write may or may not have taken effect
    let mut uncertain: Vec<(u32, i64)> = Vec::new();
    match target {
        Target::Query(root) => {
            let t = engine.clone().tracked().await;
            if prerepair_target {
                // counterfactual run (classifier of C01-F1)
                hooks::set_yield(YieldPolicy::Off, 0);
                prerepair_tfc(&t, &crate::eng::topo_order(prog_ref, &all)).await;
                hooks::set_yield(YieldPolicy::AllPre, seed ^ k as u64);
            }
            // every other point: a second caller asks for the same query from its own tracked
            // engine while the target is in flight (it runs whenever the target is suspended
            // and ends up waiting for the computation the target owns)
            let waiter = if k % 2 == 1 && k != usize::MAX {
                let (e, root) = (engine.clone(), *root);
                Some(tokio::spawn(async move {
                    let t = e.tracked().await;
                    query_node(&t, root).await
                }))
            } else {
                None
            };
            let (res, p) = cancel_after(starved(query_node(&t, *root), true), k, eager).await;
            polls = p;
            // (the value of a completed target is C01's business, see C01-F1)
            completed = res.is_some();
            drop(t);
            if let Some(w) = waiter {
                // the owner is gone: whoever waited for it must be woken and finish the work
                match bounded(w, 20).await {
                    Ok(Ok(_)) => {}
                    Ok(Err(e)) if e.is_panic() => viol.push(("waiter-of-cancelled-query-panicked".into(), Json::obj().set("root", format!("{root:?}")))),
                    Ok(Err(_)) => {}
                    Err(Wait::Deadlock) => viol.push(("waiter-of-cancelled-query-never-completes".into(), Json::obj().set("root", format!("{root:?}")).set("cancelled_after_polls", k as u64))),
                    Err(_) => inconclusive = Some("waiter of the cancelled query still busy after 20 s".into()),
                }
            }
        }
        Target::OpenSession => {
            let (res, p) = cancel_after(starved(engine.input_session(), true), k, eager).await;
            polls = p;
            if let Some(s) = res {
                completed = true;
                or.begin_session();
                ctx.epoch.store(or.epoch, Ordering::SeqCst);
                s.commit().await;
            }
        }
        Target::OpenSessionContended => {
            // the call has to wait for the phase lock held by `t`: poll it by
            // hand (a waiting future is not woken, spurious polls are legal)
            let t = engine.clone().tracked().await;
            let mut fut = Box::pin(starved(engine.input_session(), true));
            let mut got = None;
            for _ in 0..k.min(4) {
                polls += 1;
                if let Poll::Ready(s) = futures::poll!(fut.as_mut()) {
                    got = Some(s);
                    break;
                }
                tokio::task::yield_now().await;
            }
            drop(fut);
            drop(t);
            if let Some(s) = got {
                completed = true;
                or.begin_session();
                ctx.epoch.store(or.epoch, Ordering::SeqCst);
                s.commit().await;
            }
        }
        Target::SetInput(..) | Target::Update(..) | Target::Commit(..) | Target::Refresh => {
            let (i, v) = match target {
                Target::SetInput(i, v) | Target::Update(i, v) | Target::Commit(i, v) => (*i, *v),
                _ => (ins[0], or.refr.inputs[&ins[0]]),
            };
            or.begin_session();
            ctx.epoch.store(or.epoch, Ordering::SeqCst);
            let mut s = engine.input_session().await;
            match target {
                Target::SetInput(..) => {
                    let (res, p) = cancel_after(starved(s.set_input(In(i), v), true), k, eager).await;
                    polls = p;
                    completed = res.is_some();
                    if completed {
                        or.refr.inputs.insert(i, v);
                    } else {
                        uncertain.push((i, v));
                    }
                    s.commit().await;
                }
                Target::Update(..) => {
                    let (res, p) = cancel_after(starved(s.update(In(i), move |_| v), true), k, eager).await;
                    polls = p;
                    completed = res.is_some();
                    if completed {
                        or.refr.inputs.insert(i, v);
                    } else {
                        uncertain.push((i, v));
                    }
                    s.commit().await;
                }
                Target::Refresh => {
                    for x in &xs {
                        ctx.cells.lock().insert(*x, 9);
                        or.cells.insert(*x, 9);
                    }
                    or.refresh_in_epoch = true;
                    let (res, p) = cancel_after(starved(s.refresh::<X>(), true), k, eager).await;
                    polls = p;
                    completed = res.is_some();
                    // a cut-short refresh may have refreshed some cells and not others:
                    // finish the job with a complete refresh so the reference is defined
                    s.refresh::<X>().await;
                    let keys: Vec<u32> = or.refr.xcap.keys().copied().collect();
                    for kx in keys {
                        let cv = or.cells.get(&kx).copied().unwrap_or(0);
                        or.refr.xcap.insert(kx, cv);
                    }
                    s.commit().await;
                }
                _ => {
                    s.set_input(In(i), v).await;
                    or.refr.inputs.insert(i, v);
                    let (res, p) = cancel_after(starved(s.commit(), true), k, eager).await;
                    polls = p;
                    completed = res.is_some();
                }
            }
        }
    }
    let yields = hooks::yields() - y0;
    hooks::set_yield(YieldPolicy::Off, 0);

    // ---- post-mortem -------------------------------------------------------
    // let spawned guards finish - or not: in `immediate` mode the very next
    // thing the user does after dropping the future is to ask again, while a
    // detached remainder of the operation may still be running
    if settle {
        for _ in 0..64 {
            tokio::task::yield_now().await;
        }
        tokio::time::sleep(Duration::from_millis(2)).await;
    }

    macro_rules! step {
        ($what:expr, $fut:expr) => {
            match bounded($fut, 20).await {
                Ok(v) => Some(v),
                Err(Wait::Deadlock) => {
                    viol.push(("deadlock-after-fault".into(), Json::obj().set("step", $what)));
                    None
                }
                Err(_) => {
                    inconclusive = Some(format!("post-mortem step `{}` still busy after 20 s", $what));
                    None
                }
            }
        };
    }

    'pm: {
        // resolve uncertain writes by reading the input back
        if !uncertain.is_empty() {
            let Some(t) = step!("tracked", engine.clone().tracked()) else { break 'pm };
            for (i, v) in &uncertain {
                let Some(got) = step!("read input back", query_node(&t, NodeId { kind: Kind::In, idx: *i })) else { break 'pm };
                let old = or.refr.inputs[i];
                if got == *v {
                    or.refr.inputs.insert(*i, *v);
                } else if got != old {
                    viol.push(("input-has-neither-old-nor-new-value".into(), Json::obj().set("input", *i).set("got", got).set("old", old).set("new", *v)));
                }
            }
        }
        // (2) every root completes and equals the reference
        let (exp, _) = or.expect(&queryable);
        {
            let Some(t) = step!("tracked", engine.clone().tracked()) else { break 'pm };
            if raw.is_none() && step!("prerepair", prerepair_tfc(&t, &crate::eng::topo_order(prog_ref, &all))).is_none() {
                break 'pm;
            }
            for n in &queryable {
                let Some(v) = step!("re-query", query_node(&t, *n)) else { break 'pm };
                if std::env::var("QV_C05_DEBUG").is_ok() {
                    eprintln!("DEBUG C05 {target:?} k={k} immediate={immediate} polls={polls} completed={completed} requery {n:?} got {v} exp {}", exp[n]);
                }
                if v != exp[n] {
                    viol.push(("wrong-value-after-fault".into(), Json::obj().set("node", format!("{n:?}")).set("got", v).set("expected", exp[n])));
                }
            }
        }
        if raw.is_some() {
            break 'pm;
        }
        or.judge(&ctx.log.take(), false, true);
        // (3) change every leaf in turn
        for i in ins.iter().take(3) {
            or.begin_session();
            ctx.epoch.store(or.epoch, Ordering::SeqCst);
            let nv = or.refr.inputs[i] + 11;
            let Some(mut s) = step!("input_session", engine.input_session()) else { break 'pm };
            if step!("set_input", s.set_input(In(*i), nv)).is_none() {
                break 'pm;
            }
            if step!("commit", s.commit()).is_none() {
                break 'pm;
            }
            or.refr.inputs.insert(*i, nv);
            let (exp, _) = or.expect(&queryable);
            let Some(t) = step!("tracked", engine.clone().tracked()) else { break 'pm };
            if step!("prerepair", prerepair_tfc(&t, &crate::eng::topo_order(prog_ref, &all))).is_none() {
                break 'pm;
            }
            for n in &queryable {
                let Some(v) = step!("re-query after edit", query_node(&t, *n)) else { break 'pm };
                if v != exp[n] {
                    viol.push(("wrong-value-after-fault-and-edit".into(), Json::obj().set("node", format!("{n:?}")).set("got", v).set("expected", exp[n]).set("edited_input", *i)));
                }
            }
            or.judge(&ctx.log.take(), false, true);
        }
    }
    if raw.is_some() {
        let _ = bounded(shutdown(engine), 20).await;
        return PointResult { polls, completed, violations: viol, inconclusive };
    }
    for (p, kind, d) in &or.violations {
        if p == "C01" {
            viol.push((format!("oracle:{kind}"), d.clone()));
        }
    }
    // (1) stray panics
    let ps = sup::panics_since(mark);
    if !ps.is_empty() {
        viol.push(("stray-panic".into(), Json::obj().set("panics", Json::Arr(ps.iter().take(4).map(|s| Json::Str(s.clone())).collect()))));
    }
    // (5) persistence
    let deadlocked = viol.iter().any(|v| v.0 == "deadlock-after-fault");
    if !deadlocked && inconclusive.is_none() {
        let mark2 = sup::panic_mark();
        match bounded(shutdown(engine), 20).await {
            Ok(true) => {}
            Ok(false) => inconclusive = Some("engine still referenced at shutdown".into()),
            Err(Wait::Deadlock) => viol.push(("deadlock-at-shutdown".into(), Json::Null)),
            Err(_) => inconclusive = Some("shutdown busy".into()),
        }
        let ps = sup::panics_since(mark2);
        if !ps.is_empty() {
            viol.push(("panic-at-shutdown".into(), Json::obj().set("panics", Json::Arr(ps.iter().take(4).map(|s| Json::Str(s.clone())).collect()))));
        }
        if let Some(sh) = shared {
            let log = sh.log.lock();
            let mut epochs: Vec<u64> = log.iter().flat_map(|c| c.epochs.iter().copied()).collect();
            let in_order = epochs.windows(2).all(|w| w[0] < w[1]);
            epochs.sort_unstable();
            let contiguous = epochs.iter().enumerate().all(|(i, e)| *e == i as u64);
            if !in_order || !contiguous {
                viol.push(("persistence-stalled-or-reordered".into(), Json::obj().set("epochs_in_store", format!("{:?}", &epochs[..epochs.len().min(40)])).set("in_order", in_order)));
            }
            drop(log);
            if viol.is_empty() && inconclusive.is_none() {
                // reopen on the same store: values equal the reference
                let ctx2 = ExecCtx::new(prog.clone());
                for (x, v) in &or.cells {
                    ctx2.cells.lock().insert(*x, *v);
                }
                if let Ok(e2) = open_engine(b, &ctx2, YieldFrequency::Never).await {
                    let (exp, _) = or.expect(&queryable);
                    if let Ok(t) = bounded(e2.clone().tracked(), 20).await {
                        let _ = bounded(prerepair_tfc(&t, &crate::eng::topo_order(prog_ref, &all)), 20).await;
                        for n in &queryable {
                            match bounded(query_node(&t, *n), 20).await {
                                Ok(v) if v != exp[n] => viol.push(("wrong-value-after-reopen".into(), Json::obj().set("node", format!("{n:?}")).set("got", v).set("expected", exp[n]))),
                                Ok(_) => {}
                                Err(_) => {
                                    viol.push(("deadlock-after-reopen".into(), Json::Null));
                                    break;
                                }
                            }
                        }
                        drop(t);
                    }
                    let _ = bounded(shutdown(e2), 20).await;
                }
            }
        }
    } else {
        std::mem::forget(engine); // a wedged engine cannot be dropped safely
    }
    let _ = yields;
    PointResult { polls, completed, violations: viol, inconclusive }
}

static MASKED_BY_F1: std::sync::atomic::AtomicU64 = std::sync::atomic::AtomicU64::new(0);
static PANIC_VIA_BP: std::sync::atomic::AtomicU64 = std::sync::atomic::AtomicU64::new(0);

/// Executor panic case: node `victim` panics when it computes its current value.
async fn run_panic<B: Backend>(b: &B, prog0: &Arc<Program>, seed: u64, victim: NodeId) -> (Vec<(String, Json)>, bool) {
    let mut viol: Vec<(String, Json)> = Vec::new();
    // determine the value the victim computes in the target epoch; it must
    // differ from its epoch-1 value (else the prefix itself would panic, or
    // the victim is legitimately served from cache)
    let value = {
        let Built { engine, mut or, v1, .. } = build(b, prog0, seed).await;
        let v = or.expect(&[victim]).0[&victim];
        shutdown(engine).await;
        if v1.get(&victim) == Some(&v) {
            return (viol, false);
        }
        v
    };
    let mut p = (**prog0).clone();
    p.poison = Some((victim, value));
    let prog = Arc::new(p);
    let prog_ref: &Program = &prog;
    let all: Vec<NodeId> = prog.nodes.keys().copied().collect();
    let dependants: Vec<NodeId> = all.iter().copied().filter(|n| closure(&prog, &[*n]).contains(&victim)).collect();
    let mark = sup::panic_mark();
    let mut reached = false;
    let mut masked_by_f1 = 0u64;
    let mut panic_via_backward_projection = 0u64;
    // every dependant on its own freshly built state, so that a stale
    // verification made on behalf of one query (C01-F1) cannot hide the panic
    // from the next
    for n in &dependants {
        let Built { engine, or, .. } = build(b, &prog, seed).await;
        let t = engine.clone().tracked().await;
        let r = bounded(AssertUnwindSafe(query_node(&t, *n)).catch_unwind(), 20).await;
        // ... and once more on the same state, nothing changed in between: the victim still
        // panics, so the answer must be the panic again - not a value put together from what
        // was stored before the panic
        let r2 = if matches!(r, Ok(Err(_))) { Some(bounded(AssertUnwindSafe(query_node(&t, *n)).catch_unwind(), 20).await) } else { None };
        drop(t);
        let mut wedged = false;
        if let Some(Ok(Ok(v))) = &r2 {
            let mut clean = (**prog0).clone();
            clean.poison = None;
            let (exp, _) = Oracle::new(Arc::new(clean)).expect_with(&or, &[*n]);
            if exp.contains_key(&victim) {
                viol.push(("panic-swallowed-on-second-request".into(), Json::obj().set("node", format!("{n:?}")).set("returned", *v).set("from_scratch_without_the_panic", exp[n])));
            }
        } else if let Some(Err(Wait::Deadlock)) = &r2 {
            viol.push(("deadlock-after-panic".into(), Json::obj().set("node", format!("{n:?}")).set("request", "second")));
        }
        match r {
            Ok(Err(payload)) => {
                reached = true;
                let msg = payload.downcast_ref::<String>().cloned().unwrap_or_default();
                if !msg.contains("injected executor panic") {
                    viol.push(("wrong-panic-payload".into(), Json::obj().set("node", format!("{n:?}")).set("payload", msg)));
                }
            }
            Ok(Ok(_)) if !or.last_run.contains_key(n) => {
                // a never-computed node reads stale nodes above the
                // unrepaired firewall that hides the victim: C01-F1
                masked_by_f1 += 1;
            }
            Ok(Ok(v)) => {
                // legitimate only if the node does not actually read the victim under these inputs
                let mut clean = (**prog0).clone();
                clean.poison = None;
                let (exp, _) = Oracle::new(Arc::new(clean)).expect_with(&or, &[*n]);
                if exp.contains_key(&victim) {
                    // ... or if the victim's staleness is hidden behind an unrepaired firewall and
                    // the query reads above it at executor level (known finding C01-F1): on a
                    // fresh state the user repairs the firewalls first; the panic must then reach
                    // either that repair or the query
                    let Built { engine: e2, .. } = build(b, &prog, seed).await;
                    let t2 = e2.clone().tracked().await;
                    let pre = bounded(AssertUnwindSafe(prerepair_tfc(&t2, &crate::eng::topo_order(prog_ref, &all))).catch_unwind(), 20).await;
                    let reaches = match pre {
                        Ok(Err(_)) => true,
                        Ok(Ok(())) => matches!(bounded(AssertUnwindSafe(query_node(&t2, *n)).catch_unwind(), 20).await, Ok(Err(_))),
                        Err(_) => false,
                    };
                    drop(t2);
                    let _ = bounded(shutdown(e2), 20).await;
                    if reaches {
                        masked_by_f1 += 1;
                    } else {
                        viol.push(("panic-swallowed".into(), Json::obj().set("node", format!("{n:?}")).set("returned", v)));
                    }
                }
            }
            Err(Wait::Deadlock) => {
                viol.push(("deadlock-after-panic".into(), Json::obj().set("node", format!("{n:?}"))));
                wedged = true;
            }
            Err(_) => wedged = true,
        }
        if wedged {
            std::mem::forget(engine);
            break;
        }
        let _ = bounded(shutdown(engine), 20).await;
    }
    let Built { engine, ctx, mut or, ins, .. } = build(b, &prog, seed).await;
    let stray: Vec<String> = sup::panics_since(mark).into_iter().filter(|p| !p.contains("injected executor panic")).collect();
    if !stray.is_empty() {
        viol.push(("stray-panic".into(), Json::obj().set("panics", Json::Arr(stray.iter().take(4).map(|s| Json::Str(s.clone())).collect()))));
    }
    // non-dependants are unaffected
    if !viol.iter().any(|v| v.0.starts_with("deadlock")) {
        let others: Vec<NodeId> = all.iter().copied().filter(|n| !dependants.contains(n)).collect();
        let (exp, _) = or.expect(&others);
        let t = engine.clone().tracked().await;
        // (no panicking query has run on this state yet; C01-F1 is masked by
        // repairing the firewalls below the non-dependants at user level)
        // (repairing a firewall re-executes the projections above it eagerly - backward
        // projection - and such a projection may read the victim although the query the
        // user asked for does not: the injected panic then legitimately reaches this
        // caller too; it is counted, not flagged)
        let _ = bounded(AssertUnwindSafe(prerepair_tfc(&t, &crate::eng::topo_order(prog_ref, &others))).catch_unwind(), 20).await;
        for n in &others {
            match bounded(AssertUnwindSafe(query_node(&t, *n)).catch_unwind(), 20).await {
                Ok(Ok(v)) if v != exp[n] => viol.push(("wrong-value-after-panic".into(), Json::obj().set("node", format!("{n:?}")).set("got", v).set("expected", exp[n]))),
                Ok(Ok(_)) => {}
                Ok(Err(payload)) => {
                    let msg = payload.downcast_ref::<String>().cloned().unwrap_or_default();
                    if msg.contains("injected executor panic") {
                        masked_by_f1 += 0;
                        panic_via_backward_projection += 1;
                    } else {
                        viol.push(("wrong-panic-payload".into(), Json::obj().set("node", format!("{n:?}")).set("payload", msg)));
                    }
                }
                Err(_) => {
                    viol.push(("deadlock-after-panic".into(), Json::obj().set("node", format!("{n:?}"))));
                    break;
                }
            }
        }
        // now one panicking query, then the engine must still be usable
        if let Some(n) = dependants.first() {
            let _ = bounded(AssertUnwindSafe(query_node(&t, *n)).catch_unwind(), 20).await;
        }
        drop(t);
        // change inputs until the victim computes something else, then everything must be right
        for round in 0..3 {
            or.begin_session();
            ctx.epoch.store(or.epoch, Ordering::SeqCst);
            let mut s = engine.input_session().await;
            for i in &ins {
                let nv = or.refr.inputs[i] + 5 + round;
                s.set_input(In(*i), nv).await;
                or.refr.inputs.insert(*i, nv);
            }
            s.commit().await;
            let (exp, _) = or.expect(&all);
            if exp[&victim] == value {
                continue;
            }
            let t = engine.clone().tracked().await;
            let _ = bounded(AssertUnwindSafe(prerepair_tfc(&t, &crate::eng::topo_order(prog_ref, &all))).catch_unwind(), 20).await;
            for n in &all {
                match bounded(AssertUnwindSafe(query_node(&t, *n)).catch_unwind(), 20).await {
                    Ok(Ok(v)) if v != exp[n] => viol.push(("wrong-value-after-panic-and-edit".into(), Json::obj().set("node", format!("{n:?}")).set("got", v).set("expected", exp[n]))),
                    Ok(Ok(_)) => {}
                    Ok(Err(_)) => viol.push(("panic-persists-after-inputs-changed".into(), Json::obj().set("node", format!("{n:?}")))),
                    Err(_) => {
                        viol.push(("deadlock-after-panic".into(), Json::obj().set("node", format!("{n:?}"))));
                        break;
                    }
                }
            }
            break;
        }
    }
    if viol.iter().any(|v| v.0.starts_with("deadlock")) {
        std::mem::forget(engine);
    } else {
        let mark2 = sup::panic_mark();
        let _ = bounded(shutdown(engine), 20).await;
        if !sup::panics_since(mark2).is_empty() {
            viol.push(("panic-at-shutdown".into(), Json::obj().set("panics", sup::panics_since(mark2).join(" | "))));
        }
    }
    MASKED_BY_F1.fetch_add(masked_by_f1, Ordering::Relaxed);
    PANIC_VIA_BP.fetch_add(panic_via_backward_projection, Ordering::Relaxed);
    (viol, reached)
}

impl Oracle {
    /// evaluate `nodes` with this oracle's program but the inputs / cells of `other`
    fn expect_with(&mut self, other: &Oracle, nodes: &[NodeId]) -> (HashMap<NodeId, i64>, HashMap<NodeId, Vec<(NodeId, i64)>>) {
        self.refr = other.refr.clone();
        self.cells = other.cells.clone();
        self.expect(nodes)
    }
}

fn gen_target(r: &mut Rng, prog: &Program, ins: &[u32]) -> Target {
    let nodes: Vec<NodeId> = prog.nodes.keys().copied().collect();
    match r.below(14) {
        0..=5 => Target::Query(*r.pick(&nodes)),
        6 => Target::OpenSession,
        7 => Target::OpenSessionContended,
        8 => Target::SetInput(*r.pick(ins), r.range(10, 20)),
        9 => Target::Update(*r.pick(ins), r.range(10, 20)),
        10 => Target::Refresh,
        _ => Target::Commit(*r.pick(ins), r.range(10, 20)),
    }
}

pub fn worker(ctx: &WorkerCtx) -> Report {
    hooks::install();
    let mut rep = Report::default();
    let base = Rng::new(ctx.seed).derive(500 + ctx.shard as u64);
    let nprog: u64 = ctx.pick(20, 200);
    let mut seen = std::collections::HashSet::new();
    for pi in 0..nprog {
        if let Ok(f) = std::env::var("QV_C05_PROG") {
            if f != pi.to_string() {
                continue;
            }
        }
        let mut r = base.derive(pi);
        let prog = if pi % 3 == 2 {
            let which = *r.pick(&[0u64, 1, 2, 5]);
            let sc = 3 + r.below(3) as u32;
            gen_family(&mut r, which, sc)
        } else {
            let nn = 6 + r.below(10) as u32;
            gen_program(&mut r, &GenParams { inputs: 3, xs: 1, nodes: nn, max_ops: 3, p_firewall: 25, p_projection: 20, fancy_ops: true })
        };
        let prog = Arc::new(prog);
        let (ins, _) = inputs_of(&prog);
        let ins = if ins.is_empty() { vec![0] } else { ins };
        let seed = r.next_u64();
        let spec = if r.chance(1, 3) {
            BackendSpec::Mem
        } else {
            BackendSpec::Rec { cap: *r.pick(&[1u64, 8, 1 << 18]), workers: *r.pick(&[1usize, 2]), grouping: Grouping::Never, seed: r.next_u64() }
        };
        let rt = tokio::runtime::Builder::new_current_thread().enable_all().build().unwrap();
        for ti in 0..ctx.pick(8u64, 16) {
            let target = gen_target(&mut r, &prog, &ins);
            if std::env::var("QV_C05_VICTIM").is_ok() {
                continue;
            }
            let case = format!("C05 prog {pi} target {ti} {target:?} backend={spec:?}");
            ctx.announce(&case);
            // pass 1: measure K
            let run_raw = |k: usize, settle: bool| -> PointResult {
                match &spec {
                    BackendSpec::Mem => rt.block_on(run_point(&MemBackend, &prog, seed, &target, k, None, false, false, Some(settle))),
                    s => {
                        let b = s.rec().unwrap();
                        rt.block_on(run_point(&b, &prog, seed, &target, k, None, false, false, Some(settle)))
                    }
                }
            };
            let run_mode = |k: usize, pre: bool, immediate: bool| -> PointResult {
                match &spec {
                    BackendSpec::Mem => rt.block_on(run_point(&MemBackend, &prog, seed, &target, k, None, pre, immediate, None)),
                    s => {
                        let b = s.rec().unwrap();
                        let sh = b.shared.clone();
                        rt.block_on(run_point(&b, &prog, seed, &target, k, Some(&sh), pre, immediate, None))
                    }
                }
            };
            let run = |k: usize, immediate: bool| -> PointResult {
                let res = run_mode(k, false, immediate);
                let valueish = |kind: &str| kind.starts_with("wrong-value") || kind.starts_with("oracle:");
                if matches!(target, Target::Query(_)) && !res.violations.is_empty() && res.violations.iter().all(|v| valueish(&v.0)) {
                    let cf = run_mode(k, true, immediate);
                    if cf.violations.is_empty() {
                        // attributed to the known finding C01-F1, not to cancellation
                        return PointResult { violations: vec![("__c01_f1".into(), Json::Null)], ..cf };
                    }
                }
                res
            };
            let full = run(usize::MAX, false);
            let kmax = full.polls;
            rep.max("polls_of_one_operation", kmax as u64);
            let mut ks: Vec<usize> = if ctx.tier == Tier::Thorough || kmax <= 12 {
                (0..=kmax).collect()
            } else {
                let mut v = vec![0, 1, 2, kmax - 1, kmax];
                for _ in 0..8 {
                    v.push(1 + r.usize_below(kmax - 1));
                }
                v.sort_unstable();
                v.dedup();
                v
            };
            ks.push(usize::MAX);
            let mut results = vec![(usize::MAX, false, full)];
            for k in ks.iter().copied().filter(|k| *k != usize::MAX) {
                results.push((k, false, run(k, false)));
                results.push((k, true, run(k, true)));
                // differential: ask again at once, with no user-level firewall repair in between
                // (that repair yields to the scheduler and would let a detached remainder of the
                // operation finish first). Wrong values that the same point shows after
                // settling as well are the known finding C01-F1, not an effect of the drop.
                // (not for query targets: the detached remainder of a cancelled query keeps
                // publishing results, so "asked at once" and "asked after settling" start from
                // different engine states and the known finding C01-F1 shows differently in
                // the two - the comparison is only sound when the remainder changes nothing
                // but the lock / commit state, i.e. for session operations)
                if matches!(target, Target::Query(_)) {
                    continue;
                }
                let mut now = run_raw(k, false);
                if !now.violations.is_empty() {
                    let later = run_raw(k, true);
                    let key = |v: &(String, Json)| format!("{}:{}", v.0, v.1.render());
                    let base: std::collections::HashSet<String> = later.violations.iter().map(key).collect();
                    let before = now.violations.len();
                    now.violations.retain(|v| !base.contains(&key(v)));
                    rep.count("raw_requery_wrong_values_also_seen_after_settling_C01-F1", (before - now.violations.len()) as u64);
                    for v in &mut now.violations {
                        v.0 = format!("{}-only-when-asked-before-detached-remainder-finished", v.0);
                    }
                }
                rep.count("cancel_points_requeried_without_any_yield", 1);
                results.push((k, true, now));
            }
            for (k, immediate, res) in results {
                rep.evaluations += 1;
                rep.count("cancel_points", 1);
                if immediate {
                    rep.count("cancel_points_followed_immediately_by_requests", 1);
                }
                if k > 0 && k < kmax && !res.completed {
                    rep.count("cancel_points_inside_operation", 1);
                    rep.distinct.insert(h64(&(prog.shape_hash(), format!("{target:?}"), k)));
                }
                if let Some(i) = res.inconclusive {
                    rep.inconclusive.push(format!("{case} k={k}: {i}"));
                }
                for (kind, d) in res.violations {
                    if kind == "__c01_f1" {
                        rep.count("points_attributed_to_C01-F1_by_counterfactual", 1);
                        continue;
                    }
                    let sig = format!("C05/{kind} target={}", format!("{target:?}").split('(').next().unwrap_or("?"));
                    if seen.insert(sig.clone()) {
                        ctx.violation(&Violation {
                            signature: sig,
                            what: format!("{kind} after dropping {target:?} at poll {k} of {kmax}{}: {}", if immediate { " (next request issued immediately)" } else { "" }, d.render()),
                            witness: Json::obj().set("case", case.as_str()).set("state_seed", seed).set("cancel_after_polls", k as u64).set("immediate", immediate).set("polls_when_not_cancelled", kmax).set("detail", d).set("program", prog.to_json()),
                        });
                    } else {
                        rep.count("repeat_violations_same_signature", 1);
                    }
                }
            }
            if pi == 0 && ti == 0 {
                rep.sample(Json::obj().set("case", case.as_str()).set("polls", kmax).set("cancel_points", Json::Arr(ks.iter().take(12).map(|k| Json::Int(*k as i128)).collect())));
            }
        }
        // panics: every executor node in turn
        let victims: Vec<NodeId> = prog.nodes.keys().copied().collect();
        for v in victims.iter().take(ctx.pick(8, 100)) {
            if let Ok(f) = std::env::var("QV_C05_VICTIM") {
                if f != format!("{v:?}") {
                    continue;
                }
            }
            let case = format!("C05 prog {pi} panic in {v:?} backend={spec:?}");
            ctx.announce(&case);
            let (viol, reached) = match &spec {
                BackendSpec::Mem => rt.block_on(run_panic(&MemBackend, &prog, seed, *v)),
                s => rt.block_on(run_panic(&s.rec().unwrap(), &prog, seed, *v)),
            };
            rep.evaluations += 1;
            if reached {
                rep.count("panic_cases", 1);
                rep.distinct.insert(h64(&(prog.shape_hash(), "panic", v)));
            }
            for (kind, d) in viol {
                let sig = format!("C05/{kind} executor-panic");
                if seen.insert(sig.clone()) {
                    ctx.violation(&Violation {
                        signature: sig,
                        what: format!("{kind} with panicking executor {v:?}: {}", d.render()),
                        witness: Json::obj().set("case", case.as_str()).set("state_seed", seed).set("detail", d).set("program", prog.to_json()),
                    });
                }
            }
        }
        rt.shutdown_timeout(Duration::from_secs(2));
    }
    rep.count("hook_yields", hooks::yields());
    rep.count("panic_queries_that_returned_a_value_because_of_C01-F1", MASKED_BY_F1.load(Ordering::Relaxed));
    rep.count("injected_panic_reached_a_non_dependant_through_backward_projection", PANIC_VIA_BP.load(Ordering::Relaxed));
    for (k, v) in hooks::hits() {
        if k.starts_with("pre") {
            rep.count(&format!("hook:{k}"), v);
        }
    }
    rep
}
